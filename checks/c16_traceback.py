"""C16 - ParsedException text round trip; TracebackInfo / ExceptionInfo vs the interpreter's traceback module.

Engine E2 (mc.inputs), three exhaustively enumerated parts (bounds per tier: see text_units, marker_units,
program_chains and the evidence's coverage.bounds):

* part `texts`   - grammar product of traceback texts.  Every piece of text (frame entry, final exception
  line) is produced by the standard library itself (`traceback.format_list` on a `FrameSummary`,
  `traceback.format_exception_only` on a real exception object), so each text *is* in the interpreter's
  standard format.  Oracle: `ParsedException.from_string(t)` recovers every generating field and
  `to_string() == t`.  Besides ordinary source lines the menu holds source lines that begin like a line of the
  traceback grammar (LOOKALIKE_SOURCES: prefixes of a `File "..."` line, the header, an exception line).
  Unit kind `msg:` crosses the shorter texts with a wider message menu (EXTRA_MESSAGES: white-space-only lines, trailing
  white space, grammar lookalikes as continuation lines, ...) and hands every text over as str and as UTF-8 bytes.
* part `markers` - the same texts with position-marker lines (`~~~^^^`) below source lines: the fields must
  still be recovered (text identity is not demanded: to_string documents that it omits anchors).
* part `programs` - call-chain programs generated as source files in a scratch directory under /dev/shm,
  loaded under unique module names, run, and the resulting exception handed to both the standard
  `traceback` module (oracle; position-marker lines removed) and boltons.tbutils.  Links include code outside
  files: exec'd strings, '<...>' names registered in linecache, and virtual paths whose source comes from a
  PEP 302 loader's get_source (VIRTUAL_LINKS).  tbutils is asked after the linecache entries the oracle
  left behind were dropped, so it has to find the source lines itself.  Besides ExceptionInfo.from_exc_info /
  TracebackInfo.from_traceback(tb) the argument-less entry points (ExceptionInfo.from_current,
  TracebackInfo.from_traceback()) are called inside the program's own except block, and other (type, value,
  traceback) triples are rendered: the tail tb.tb_next (what an inner handler recorded before the exception
  propagated further; oracle: the traceback module given the same triple) and a value stripped of its __traceback__.
  Link 'genfile' (GENERATED_LINKS): code compiled from a string under the path of a real file, run in a bare namespace.
  Links 'reraise', 'reraise_stored' (RERAISE_LINKS): the function catches the exception and raises the same object again,
  so one frame object stands behind two traceback entries with different line numbers.
* part `programs-tails` - the same programs whose raising function is itself recursive *on the raising line*
  (TAILS), so that the traceback ends inside a run of identical entries (with and without a
  "[Previous line repeated ...]" summary as its last stack line); directed deep runs (DEEP_TAILS).
* part `programs-edited` - after the program raised, the sources the traceback points to (file on disk, loader
  source, linecache entry) are edited: each referenced line (and all at once) is replaced by a member of
  LINE_CLASSES (empty, white space only, trailing white space, ...) or cut off (STRUCTURAL_EDITS); the traceback
  module (oracle) and tbutils both render the exception against the edited sources.
* part `programs-histories` - histories of source availability in one process (SOURCE_STATES: as loaded / gone /
  shifted, every sequence without immediate repetition): in each state the loaded code raises a new exception which
  tbutils renders before the traceback module does (and then again both from a cooled linecache).
"""
import importlib.util
import itertools
import json
import linecache
import os
import re
import shutil
import signal
import sys
import traceback

from mc import core, inputs

PROPERTY = 'C16'
LEVEL = 'exploration'

HEADER = 'Traceback (most recent call last):\n'
CASE_BUDGET_S = 20.0          # a single case normally takes < 1 ms; only a hang can reach this


class _Budget(BaseException):
    pass


def _on_alarm(signum, frame):
    raise _Budget()


class budget:
    """Wall-clock guard around one call into the code under test: a hang becomes a reported violation
    instead of a hung checker (it cannot turn a terminating run into an alarm unless one sub-millisecond
    case takes 20 s)."""

    def __enter__(self):
        self.old = signal.signal(signal.SIGVTALRM, _on_alarm)
        signal.setitimer(signal.ITIMER_VIRTUAL, CASE_BUDGET_S)

    def __exit__(self, *a):
        signal.setitimer(signal.ITIMER_VIRTUAL, 0)
        signal.signal(signal.SIGVTALRM, self.old)
        return False


# ====================================================================================================
# Part 1: traceback texts
# ====================================================================================================

PATHS = ('/a/b.py', 'C:\\x y\\\u00e9.py', '<string>', '<stdin>')
LINES = (1, 1234)
FUNCS = ('f', '<module>', '<lambda>', 'C.m', '<generic parameters of A>')      # the last: a real 3.12 name with spaces
SOURCES = ('', 'x = 1', 'raise E("a: b")', '    indented()')     # as found in the file; '' = not available
EXC_TYPES = ('ValueError', 'pkg.mod.Custom', 'KeyboardInterrupt')
MESSAGES = ('', 'msg', 'a: b', 'line1\nline2', 'x\n\ny', ' lead', 'm\n  File "x", line 1, in y')
MARKERS = ('    ^^^^^', '      ~~~~^^^')
# More message shapes, crossed with the shorter texts only (message_units): lines made of white space only, trailing /
# leading white space, an empty first line, continuation lines that read like lines of the traceback grammar,
# non-ASCII white space, a long line.  (Not in the menu: messages ending in a newline - the text is then
# indistinguishable from the terminated text of the shorter message - and messages containing a line boundary of
# str.splitlines other than "\n", see run().)
EXTRA_MESSAGES = ('a\n \nb', 'a\n\t\nb', 'a\n    \n    b', 'a  \nb ', ' ', '\nb', 'a\n ', 'a\n    b\nc',
                  'a\nTraceback (most recent call last):\nb', 'a\nValueError: b', 'a\n    ^^^^',
                  'a\n  [Previous line repeated 3 more times]', '\u00e9: \u20ac\n\u3000\n\u00a0b', 'x' * 5000 + '\ny')

# Source lines that begin like a line of the traceback grammar without being one: every proper prefix of a stack
# entry's first line cut at a token boundary, the header line, an exception line - and a source line that, stripped,
# is itself a *complete* 'File "...", line N, in name' line (only its deeper indentation tells it from a frame).
LOOKALIKE_SOURCES = (
    'File "%s" could not be opened: %s""" % (name, reason))',
    'File', 'File "', 'File "x.py"', 'File "x.py", line', 'File "x.py", line 3', 'File "x.py", line 3, in',
    'File "x.py", line 3, in f',
    'Traceback (most recent call last):', 'ValueError: x')

# Text that means something to the mechanisms a renderer / scanner may be built from - str.format ('{', '}'),
# %-formatting, regular-expression replacement templates ('\1', '\g<0>'), string.Template ('$x') - placed in every
# free-text position of the grammar: the source line (dict / set literals, f-strings, format calls are everyday source
# lines), the path, the message.  (Function names are identifiers or <...> names: no such characters.)
META_SOURCES = (
    'counts = {}', 'return {{x}}', 'cfg = {"retries": n, "delay": d}', 'msg = f"{user} failed {n} times"',
    'opts = {0: run(), 1: stop()}', 'd = {', '}', 'log("{!r:>10}".format(v))',
    'print("%s: %d%%" % (a, b))', 'x = "%(name)s" % d', 'pct = 100 % n', 'return "%"',
    's = re.sub(r"(\\w+)\\s*$", r"\\1\\g<0>", s)', 'p = "C:\\new\\table"', 'os.environ["$HOME"] = "${x} $1"')
META_PATHS = ('/a/{x}/{0}{}.py', '/a/%s/100%/%(n)s.py', 'C:\\1\\g<0>\\$x\\${y}.py')
# Terminal control text inside the free-text positions (command-line tools put colour sequences into their error messages;
# a source line may hold the escape character literally): ANSI SGR / erase / cursor sequences, an OSC title sequence,
# a lone ESC, other C0 controls and DEL.  (None of them is a line boundary or, placed inside the text, stripped white space.)
CONTROL_MESSAGES = ('status: \x1b[31mFAILED\x1b[0m', '\x1b[0m', 'a\x1b[1;31m\nb\x1b[m: c', '\x1b[2K\x1b[1A\x1b]0;t\x07x',
                    'a\x1bb', 'a\x07\x08\x00\x7fb\tc')
CONTROL_SOURCES = ('print("\x1b[1;31merror\x1b[0m")', 'RESET = "\x1b[m\x1b[2K\x1b"; bell = "\x07\x08\x00\x7f"')
META_SOURCES += CONTROL_SOURCES
META_MESSAGES = ('{}', '{0} {x} {{y}} }{', '%s %(a)s 100% %d', '\\1 \\g<0> \\', '$x ${y} $$', 'k: {"a": 1}\n{\n}')

# Texts in which the interpreter summarises recursion: an entry printed three times followed by
# "  [Previous line repeated N more times]".  On the tree as of this writing ParsedException.from_string does not know
# that line (genuine defect, fixes/C16-8-parse-repeat-summary-line.patch): the units are enumerated only when this is
# set - set it to True once that fix is in the tree.
REPEAT_SUMMARY_TEXTS = True
REPEAT_COUNTS = (1, 2, 997)

FRAME_MENU = tuple(itertools.product(PATHS, LINES, FUNCS, SOURCES))        # 160 frame variants
# reduced menu for the longest texts of the quick tier: every path, function, line and source kind occurs,
# every source kind with two different (path, function) surroundings
SMALL_MENU = tuple((PATHS[(i + j) % 4], LINES[(i + j) % 2], FUNCS[(i + 2 * j) % len(FUNCS)], SOURCES[i])
                   for j in range(2) for i in range(4))
# medium menu for the thorough tier's 3-frame texts: paths x functions x sources fully crossed (64 entries);
# only the line number (crossed with everything else in the 0-2 frame texts) follows from the other indices
MEDIUM_MENU = tuple((p, LINES[(i + j + k) % 2], f, s) for i, p in enumerate(PATHS)
                    for j, f in enumerate(FUNCS) for k, s in enumerate(SOURCES))
# frames whose source line is a lookalike: each with one surrounding here (with all of them in the 1-frame texts)
LOOK_MENU = tuple((PATHS[i % len(PATHS)], LINES[i % len(LINES)], FUNCS[i % len(FUNCS)], s)
                  for i, s in enumerate(LOOKALIKE_SOURCES))
LOOK_ALL = tuple(itertools.product(PATHS, LINES, FUNCS, LOOKALIKE_SOURCES))
# frames with a META source line and / or a META path: all of them in the 1-frame texts, one surrounding each (META_MENU:
# every meta source line once, every meta path once with each kind of ordinary source line) in the longer texts
_ALL_PATHS = PATHS + META_PATHS
META_ALL = tuple(fr for fr in itertools.product(_ALL_PATHS, LINES, FUNCS, SOURCES + META_SOURCES)
                 if fr[0] in META_PATHS or fr[3] in META_SOURCES)
META_MENU = (tuple((_ALL_PATHS[i % len(_ALL_PATHS)], LINES[i % len(LINES)], FUNCS[i % len(FUNCS)], s)
                   for i, s in enumerate(META_SOURCES)) +
             tuple((p, LINES[(i + j) % len(LINES)], FUNCS[(i + j) % len(FUNCS)], s)
                   for i, p in enumerate(META_PATHS) for j, s in enumerate(SOURCES)))
MENUS = {'full': FRAME_MENU, 'medium': MEDIUM_MENU, 'small': SMALL_MENU, 'lookm': LOOK_MENU,
         'look1': LOOK_ALL, 'look2': LOOK_MENU + FRAME_MENU, 'look3': LOOK_MENU + SMALL_MENU,
         'metam': META_MENU, 'meta1': META_ALL, 'meta2': META_MENU + SMALL_MENU, 'meta3': META_MENU + SMALL_MENU}
# entries that occur in a summarised run: the reduced menu and a few metacharacter frames (braces, %, backslashes, path)
REP_MENU = SMALL_MENU + (META_MENU[0], META_MENU[3], META_MENU[8], META_MENU[12], META_MENU[len(META_SOURCES) + 1])
SPECIAL = {'look': frozenset(LOOK_MENU), 'meta': frozenset(META_MENU)}
EXC_MENU = tuple(itertools.product(EXC_TYPES, MESSAGES))                     # 21
# Messages containing a line boundary of str.splitlines other than "\n" (the interpreter writes them as they are): on
# the tree as of this writing from_string cuts the message there and to_string() joins with "\n" - defect candidate,
# fixes/C16-10-line-boundaries.patch.  Set to True once that fix is in the tree.
SPLITLINES_BOUNDARY_MESSAGES = True
BOUNDARY_MESSAGES = ('a\rb', 'a\x0bb', 'a\x0cb', 'a\x1cb', 'a\x1eb', 'a\x85b', 'a\u2028b', 'a\u2029\nb')
if SPLITLINES_BOUNDARY_MESSAGES:
    EXTRA_MESSAGES += BOUNDARY_MESSAGES
EXTRA_MESSAGES += CONTROL_MESSAGES
XEXC_MENU = tuple(itertools.product(EXC_TYPES, EXTRA_MESSAGES))
MEXC_MENU = tuple(itertools.product(EXC_TYPES, META_MESSAGES))


def _exc_class(name):
    if '.' in name:
        mod, _, cn = name.rpartition('.')
        return type(cn, (Exception,), {'__module__': mod})
    return getattr(__import__('builtins'), name)


def frame_text(fr):
    """The interpreter's own rendering of one stack entry (no position information -> no marker line)."""
    path, lineno, func, src = fr
    out = traceback.format_list([traceback.FrameSummary(path, lineno, func, line=src)])
    assert len(out) == 1
    return out[0]


def exc_text(ex):
    tname, msg = ex
    e = _exc_class(tname)(msg) if msg else _exc_class(tname)()
    return ''.join(traceback.format_exception_only(type(e), e))


_PIECES = {}


def pieces():
    if not _PIECES:
        _PIECES['f'] = {fr: frame_text(fr) for fr in FRAME_MENU + LOOK_ALL + META_ALL}
        assert set(META_MENU) <= set(META_ALL) and not set(META_ALL) & set(FRAME_MENU)
        assert set(MEDIUM_MENU) <= set(FRAME_MENU) and set(SMALL_MENU) <= set(FRAME_MENU)
        _PIECES['e'] = {ex: exc_text(ex) for ex in EXC_MENU + XEXC_MENU + MEXC_MENU}
        # harness self-check: the pieces concatenate to what the interpreter prints for a whole traceback
        fr = [FRAME_MENU[5], FRAME_MENU[0], FRAME_MENU[127]]
        ss = traceback.StackSummary.from_list([traceback.FrameSummary(p, l, f, line=s) for p, l, f, s in fr])
        whole = HEADER + ''.join(ss.format()) + _PIECES['e'][EXC_MENU[3]]
        mine = build_text(fr, EXC_MENU[3]) + '\n'
        if whole != mine:
            raise RuntimeError('text pieces do not concatenate to the interpreter format: %r vs %r' % (whole, mine))
        # ... also with a repeat summary: 3 + N equal entries are printed as 3 entries and the summary line
        for n in REPEAT_COUNTS:
            fr = [FRAME_MENU[5]] + [FRAME_MENU[0]] * (3 + n) + [FRAME_MENU[127]]
            ss = traceback.StackSummary.from_list([traceback.FrameSummary(p, l, f, line=s) for p, l, f, s in fr])
            whole = HEADER + ''.join(ss.format()) + _PIECES['e'][EXC_MENU[3]]
            mine = build_text([FRAME_MENU[5]] + [FRAME_MENU[0]] * 3 + [FRAME_MENU[127]], EXC_MENU[3],
                              repeats=[None, None, None, n, None]) + '\n'
            if whole != mine:
                raise RuntimeError('repeat summary differs from the interpreter format: %r vs %r' % (whole, mine))
    return _PIECES


def build_text(frames, ex, marks=None, repeats=None):
    p = _PIECES
    parts = [HEADER]
    for i, fr in enumerate(frames):
        parts.append(p['f'][tuple(fr)])
        if marks and marks[i] is not None:
            parts.append(MARKERS[marks[i]] + '\n')
        if repeats and repeats[i] is not None:
            parts.append('  [Previous line repeated %d more time%s]\n' % (repeats[i], 's' if repeats[i] > 1 else ''))
    parts.append(p['e'][tuple(ex)])
    t = ''.join(parts)
    assert t.endswith('\n')
    return t[:-1]           # to_string() renders without the final line terminator


class _nobudget:
    def __enter__(self):
        pass

    def __exit__(self, *a):
        return False


def check_text(case, guard=budget):
    """case = {'frames': [[path, lineno, func, src], ...], 'exc': [type, msg], 'marks': None | [None|int, ...],
               'repeats': absent | [None|N, ...]  (N: a "[Previous line repeated N more times]" line follows the entry),
               'bytes': absent | True  (the text is handed over UTF-8 encoded, which from_string documents to accept)}
    Returns list of (sig, expected, observed).  `guard` is the hang guard (the shard loops install one guard
    per batch of cases instead, which is cheaper, and pass _nobudget)."""
    from boltons.tbutils import ParsedException
    pieces()
    frames, ex, marks = case['frames'], case['exc'], case.get('marks')
    marked = bool(marks) and any(m is not None for m in marks)
    repeats = case.get('repeats')
    text = build_text(frames, ex, marks, repeats)
    fn = ('fn:ParsedException.from_string' + ('(bytes)' if case.get('bytes') else '') + ('(markers)' if marked else '') +
          ('(repeat-summary)' if repeats else ''))
    if repeats:
        # the statement leaves open whether the summarised repetitions are listed: accept the printed entries as
        # they are, or followed by N more copies
        expanded = []
        for fr, n in zip(frames, repeats):
            expanded += [fr] * (1 + (n or 0))
    out = []
    try:
        with guard():
            pe = ParsedException.from_string(text.encode('utf-8') if case.get('bytes') else text)
            got_frames = list(pe.frames)
            got_type, got_msg = pe.exc_type, pe.exc_msg
    except _Budget:
        if guard is not budget:
            raise
        return [('C16|%s|no_termination' % fn, 'a result', 'no result within %.0f s' % CASE_BUDGET_S)]
    except Exception as e:
        return [('C16|%s|raised' % fn, 'parsed exception', '%s: %s' % (type(e).__name__, e))]
    if repeats and len(got_frames) == len(expanded) != len(frames):
        frames = expanded
    if len(got_frames) != len(frames):
        out.append(('C16|%s|frame_count' % fn, len(frames), len(got_frames)))
    else:
        for want, got in zip(frames, got_frames):
            path, lineno, func, src = want
            try:
                obs = {'filepath': got['filepath'], 'lineno': got['lineno'], 'funcname': got['funcname'],
                       'source_line': got.get('source_line')}
            except Exception as e:
                out.append(('C16|%s|frame_record' % fn, 'filepath/lineno/funcname/source_line', repr(got)))
                break
            exp = {'filepath': path, 'lineno': lineno, 'funcname': func, 'source_line': src.strip()}
            bad = None
            if obs['filepath'] != path:
                bad = 'filepath'
            elif str(obs['lineno']) != str(lineno):          # int or decimal string: both "recover" it
                bad = 'lineno'
            elif obs['funcname'] != func:
                bad = 'funcname'
            elif (obs['source_line'] or '') != src.strip():  # absent line: '' or None
                bad = 'source_line'
            if bad:
                out.append(('C16|%s|%s' % (fn, bad), exp, obs))
                break
    if got_type != ex[0]:
        out.append(('C16|%s|exc_type' % fn, ex[0], got_type))
    if (got_msg or '') != ex[1]:
        out.append(('C16|%s|exc_msg' % fn, ex[1], got_msg))
    if not marked:
        try:
            with guard():
                back = pe.to_string()
        except _Budget:
            if guard is not budget:
                raise
            back = '<no result within budget>'
        except Exception as e:
            back = '<raised %s: %s>' % (type(e).__name__, e)
        if back != text:
            out.append(('C16|fn:ParsedException.to_string%s%s|text' % ('(after-bytes)' if case.get('bytes') else '',
                                                                       '(repeat-summary)' if repeats else ''), text, back))
    return out


def text_nontrivial(frames):
    return len(frames) >= 1


def text_units(tier):
    """Work units in simplest-first order: (menu name, nframes, fixed prefix of menu indices)."""
    units = [('full', 0, ()), ('full', 1, ())]
    units += [('full', 2, (i,)) for i in range(0, len(FRAME_MENU), 8)]           # 16 units of 8 first frames
    if tier == 'quick':
        units.append(('small', 3, ()))
    else:
        units += [('medium', 3, (i,)) for i in range(len(MEDIUM_MENU))]
        units += [('small', 4, (i,)) for i in range(len(SMALL_MENU))]
    return (units + look_units(tier) + meta_units(tier) + (repeat_units(tier) if REPEAT_SUMMARY_TEXTS else []) +
            message_units(tier))


def meta_units(tier):
    """Texts in which at least one frame has a META source line or path (and, in the text_shard variants, every META
    message): 1 frame with every surrounding; 2 frames: each META_MENU frame before and after every frame of META_MENU +
    the reduced menu; thorough: 3 frames over the same menu."""
    units = [('meta1', 1, ())]
    units += [('meta2', 2, (i,)) for i in range(len(META_MENU))]
    if tier != 'quick':
        units += [('meta3', 3, (i,)) for i in range(len(MENUS['meta3']))]
    return units


def message_units(tier):
    """'msg:<menu>' units: every message of MESSAGES + EXTRA_MESSAGES, as str and as UTF-8 bytes, below the shorter
    texts."""
    units = [('msg:full', 0, ()), ('msg:full', 1, ())]
    if tier == 'quick':
        units.append(('msg:lookm', 1, ()))
    else:
        units.append(('msg:look1', 1, ()))
    if tier == 'quick':
        return units + [('msg:small', 2, ())]
    return units + [('msg:full', 2, (i,)) for i in range(0, len(FRAME_MENU), 8)] + [('msg:small', 3, ())]


def repeat_units(tier):
    """('rep', N, index of the repeated entry in the reduced menu)."""
    return [('rep', n, (i,)) for n in REPEAT_COUNTS for i in range(len(REP_MENU))]


def repeat_texts(unit):
    """(frames, repeats) for texts with a run of entry X = REP_MENU[i] summarised with N: optionally one other entry
    before and/or after the run, or a second summarised run of another entry after it."""
    _, n, (i,) = unit
    x = REP_MENU[i]
    others = [None] + [fr for fr in SMALL_MENU if fr != x]
    for before in others:
        for after in others:
            frames = ([before] if before else []) + [x, x, x] + ([after] if after else [])
            reps = ([None] if before else []) + [None, None, n] + ([None] if after else [])
            yield frames, reps
    for y in others[1:]:
        for m in REPEAT_COUNTS:
            yield [x, x, x, y, y, y], [None, None, n, None, None, m]


def look_units(tier):
    """Texts in which at least one frame's source line is a grammar lookalike: 1 frame with every surrounding;
    2 frames: a lookalike frame before and after every frame of the full menu (and every other lookalike);
    3 (thorough: 4) frames over lookalikes + reduced menu."""
    units = [('look1', 1, ())]
    units += [('look2', 2, (i,)) for i in range(len(LOOK_MENU))]
    units += [('look3', 3, (i,)) for i in range(len(MENUS['look3']))]
    if tier != 'quick':
        units += [('look3', 4, (i, j)) for i in range(len(MENUS['look3'])) for j in range(len(MENUS['look3']))]
    return units


def look_frames(unit):
    menu_name, n, prefix = unit
    menu = MENUS[menu_name]
    looks = SPECIAL[menu_name[:4]]
    if menu_name[4:] == '1':
        return ([a] for a in menu)
    if menu_name[4:] == '2':
        a = menu[prefix[0]]
        return itertools.chain(([a, b] for b in menu), ([b, a] for b in menu if b != a))
    head = [menu[i] for i in prefix]
    return (head + list(t) for t in itertools.product(menu, repeat=n - len(head))
            if ((looks & set(head)) or (looks & set(t)))
            # more than three identical consecutive entries are not what the interpreter prints (it collapses them)
            and (n < 4 or len(set(head) | set(t)) > 1))


def unit_frames(unit):
    menu_name, n, prefix = unit
    if menu_name[:4] in SPECIAL:
        return look_frames(unit)
    menu = MENUS[menu_name]
    if n == 2 and prefix:
        firsts = menu[prefix[0]:prefix[0] + 8]
        return ([a, b] for a in firsts for b in menu)
    if prefix:
        # more than three identical consecutive entries are not what the interpreter prints (it collapses them)
        return ([menu[prefix[0]]] + list(t) for t in itertools.product(menu, repeat=n - 1)
                if n < 4 or len(set(t) | {menu[prefix[0]]}) > 1)
    return (list(t) for t in itertools.product(menu, repeat=n))


def text_shard(unit):
    t = inputs.Tally()
    pieces()
    variants = [(ex, False) for ex in EXC_MENU]
    if unit[0].startswith('msg:'):
        unit = (unit[0][4:],) + tuple(unit[1:])
        variants = [(ex, False) for ex in XEXC_MENU] + [(ex, True) for ex in EXC_MENU + XEXC_MENU]
    elif unit[0].startswith('meta'):
        variants += [(ex, False) for ex in MEXC_MENU] + [(ex, True) for ex in MEXC_MENU]
    for frames in (repeat_texts(unit) if unit[0] == 'rep' else unit_frames(unit)):
        repeats = None
        if unit[0] == 'rep':
            frames, repeats = frames
        nt = text_nontrivial(frames)
        case = None
        try:
            with budget():                      # one hang guard per batch of 21 (message units: 147) texts
                for ex, as_bytes in variants:
                    case = {'part': 'texts', 'frames': frames, 'exc': list(ex), 'marks': None}
                    if repeats:
                        case['repeats'] = repeats
                    if as_bytes:
                        case['bytes'] = True
                    t.count(nontrivial=nt, sample=case if (nt and ex[1]) else None)
                    for sig, exp, obs in check_text(case, _nobudget):
                        t.bad(sig, case, exp, obs)
        except _Budget:
            t.bad('C16|fn:ParsedException.from_string|no_termination', case, 'a result',
                  'no result within %.0f s' % CASE_BUDGET_S)
    return t


def marker_units(tier):
    look = [('look1', 1, ())] + [('look3', 2, (i,)) for i in range(len(MENUS['look3']))] + [('metam', 1, ())]
    if tier == 'quick':
        return [('small', 1, ()), ('small', 2, ()), ('small', 3, ())] + look
    return ([('full', 1, ())] + [('full', 2, (i,)) for i in range(0, len(FRAME_MENU), 8)] + [('small', 3, ())] + look +
            [('look3', 3, (i,)) for i in range(len(MENUS['look3']))])


def marker_shard(unit):
    t = inputs.Tally()
    pieces()
    excs = [ex for ex in EXC_MENU if ex[0] != 'KeyboardInterrupt']     # the final line is not involved: 14 of 21
    for frames in unit_frames(unit):
        with_src = [i for i, fr in enumerate(frames) if fr[3].strip()]
        if not with_src:
            continue
        # every non-empty subset of the source-bearing frames carries a marker line; two marker shapes
        case = None
        try:
            with budget():                      # one hang guard per frame tuple
                for r in range(1, len(with_src) + 1):
                    for subset in itertools.combinations(with_src, r):
                        for shape in range(len(MARKERS)):
                            marks = [shape if i in subset else None for i in range(len(frames))]
                            for ex in excs:
                                case = {'part': 'markers', 'frames': frames, 'exc': list(ex), 'marks': marks}
                                t.count(nontrivial=True, sample=case)
                                for sig, exp, obs in check_text(case, _nobudget):
                                    t.bad(sig, case, exp, obs)
        except _Budget:
            t.bad('C16|fn:ParsedException.from_string(markers)|no_termination', case, 'a result',
                  'no result within %.0f s' % CASE_BUDGET_S)
    return t


# ====================================================================================================
# Part 2: live call-chain programs
# ====================================================================================================

LINKS = ('plain', 'method', 'lambda', 'gen', 'listcomp', 'genexpr', 'closure', 'exec', 'multiline',
         'finally', 'rec2', 'rec3', 'rec4', 'bounce', 'linecache')
# Links through code that is not in a file: compiled from a string under a virtual (absolute, non-existent) path and
# run in a namespace that publishes the source through the PEP 302 get_source hook, which linecache - hence the
# interpreter - consults: 'loader' = namespace with __name__ and __loader__ only (generated/template code, legacy
# importers); 'specloader' = __spec__ and __loader__ both (what zipimport-like importers produce); 'speconly' =
# __spec__ with a loader but no __loader__ entry (linecache falls back to __spec__.loader).
VIRTUAL_LINKS = ('loader', 'specloader', 'speconly')
# 'genfile': generated code that is compiled from a string under the path of a real file written next to the module and
# run in a bare namespace (__name__ only, no loader): its source is found through the file system alone, and nothing
# but the file stands behind it when the file is missing.
GENERATED_LINKS = ('genfile',)
OFFMODULE_LINKS = VIRTUAL_LINKS + GENERATED_LINKS
# Links that catch the exception and raise the *same object* again with "raise exc" - inside the handler ('reraise') or
# after it, from a variable ('reraise_stored').  The interpreter then lists the function twice: the line of the raise
# statement, then the line of the original call (one frame object, two traceback entries with their own line numbers).
# No __context__ / __cause__ arises (plain_exception() verifies).  ('finally' and the heads' bare "raise" give one entry.)
RERAISE_LINKS = ('reraise', 'reraise_stored')
SHORT_LINKS = OFFMODULE_LINKS + RERAISE_LINKS       # links crossed with everything in the shorter chains only
DEEP_LINKS = ('plain', 'lambda', 'exec', 'rec3')
EXC_KINDS = ('msg', 'empty', 'keyerror', 'multiline', 'custom', 'nested', 'assert', 'badstr')
RAISE = {
    'msg': "raise ValueError('x')",
    'empty': "raise ValueError()",
    'keyerror': "raise KeyError('k')",
    'multiline': "raise ValueError('line1\\nline2')",
    'custom': "raise Custom('boom: x')",
    'nested': "raise Outer.Inner('n')",
    'assert': "assert not _sink, 'a: b'",
    'badstr': "raise BadStr()",
}
# More kinds of exception object, raised through the shortest chains only (part programs-exckinds): OSError with errno and
# filename, several args, BaseException subclasses, a class that claims module __main__, a class defined in a function
# ('<locals>' in its qualified name), non-ASCII text, __str__ returning '' / a non-string.
EXTRA_EXC_KINDS = ('oserror', 'tupleargs', 'keyboardinterrupt', 'systemexit', 'main_class', 'local_class', 'nonascii',
                   'str_empty', 'str_nonstr', 'metachars',
                   # messages that end in line terminators (captured output of a subprocess, ...), begin with one, end in
                   # white space, carry terminal colour sequences: the interpreter prints every character of them
                   'trailing_newline', 'newline_only', 'trailing_newlines', 'leading_newline', 'trailing_space', 'ansi')
# Exception classes whose __module__ is None, or a module called "exceptions" / "__builtin__" (the Python 2 names of
# builtins): on the tree as of this writing ExceptionInfo prints "None.X: m" (interpreter: "<unknown>.X: m") and
# "X: m" (interpreter: "exceptions.X: m") - defect candidate, fixes/C16-9-type-module-prefix.patch.  Set to True once
# that fix is in the tree.
ODD_MODULE_EXC_KINDS = True
ODD_MODULE_KINDS = ('module_none', 'module_exceptions', 'module_py2_builtin')
RAISE.update({
    'oserror': "raise OSError(2, 'No such file', 'x y')",
    'tupleargs': "raise ValueError('a', 2)",
    'keyboardinterrupt': "raise KeyboardInterrupt()",
    'systemexit': "raise SystemExit(3)",
    'main_class': "raise MainCls('m: n')",
    'local_class': "raise Local('l')",
    'nonascii': "raise ValueError('\\u00e9: \\u20ac')",
    'str_empty': "raise StrEmpty('x')",
    # the raising source line and the message carry format / template / regex-replacement metacharacters
    'metachars': "raise ValueError('{} {0} {{x}} }{ %s %(a)s 100% \\\\1 \\\\g<0> ${y}')",
    'str_nonstr': "raise StrInt('x')",
    'trailing_newline': "raise ValueError('x\\n')",
    'newline_only': "raise ValueError('\\n')",
    'trailing_newlines': "raise Custom('a: b\\nc\\n\\n')",
    'leading_newline': "raise ValueError('\\nx')",
    'trailing_space': "raise ValueError('x \\t')",
    'ansi': "raise ValueError('status: \\x1b[31mFAILED\\x1b[0m')",
    'module_none': "raise NoModule('m')",
    'module_exceptions': "raise LegacyModule('m')",
    'module_py2_builtin': "raise LegacyBuiltin('m')",
})
MSG_SHAPE = {'msg': 'one_line', 'empty': 'empty_message', 'keyerror': 'one_line', 'multiline': 'multi_line',
             'custom': 'one_line', 'nested': 'one_line', 'assert': 'one_line', 'badstr': 'str_raises'}
TYPE_SHAPE = {'msg': 'builtin', 'empty': 'builtin', 'keyerror': 'builtin', 'multiline': 'builtin',
              'custom': 'module_class', 'nested': 'nested_class', 'assert': 'builtin', 'badstr': 'module_class'}
MSG_SHAPE.update({'oserror': 'one_line', 'tupleargs': 'one_line', 'keyboardinterrupt': 'empty_message',
                  'systemexit': 'one_line', 'main_class': 'one_line', 'local_class': 'one_line', 'nonascii': 'one_line',
                  'str_empty': 'empty_message', 'str_nonstr': 'str_raises', 'module_none': 'one_line', 'metachars': 'one_line',
                  'module_exceptions': 'one_line', 'module_py2_builtin': 'one_line',
                  'trailing_newline': 'ends_in_newline', 'newline_only': 'ends_in_newline',
                  'trailing_newlines': 'ends_in_newline', 'leading_newline': 'multi_line', 'trailing_space': 'one_line',
                  'ansi': 'one_line'})
TYPE_SHAPE.update({'oserror': 'builtin', 'tupleargs': 'builtin', 'keyboardinterrupt': 'builtin', 'systemexit': 'builtin',
                   'main_class': 'main_class', 'local_class': 'local_class', 'nonascii': 'builtin',
                   'metachars': 'builtin',
                   'str_empty': 'module_class', 'str_nonstr': 'module_class', 'module_none': 'module_none',
                   'module_exceptions': 'module_named_like_py2_builtins',
                   'module_py2_builtin': 'module_named_like_py2_builtins',
                   'trailing_newline': 'builtin', 'newline_only': 'builtin', 'trailing_newlines': 'module_class',
                   'leading_newline': 'builtin', 'trailing_space': 'builtin', 'ansi': 'builtin'})
# Shape of the raising function.  'plain': "def fN(): raise ...".  'self<k>': fN calls itself k times *on the line that
# finally raises*, so the traceback ends with k+1 identical (file, line, function) entries: 3 (the most the interpreter
# prints in full), 4 ("1 more time"), 6 ("3 more times").
TAILS = ('self2', 'self3', 'self5')
TAIL_EXCS = ('msg', 'empty', 'multiline')
DEEP_TAILS = ('self31', 'self64', 'self257')         # directed (non-exhaustive) bulk sizes: 2**k +- 1 entries
# Call chains deeper than 1000 frames (recursion limit raised): on the tree as of this writing TracebackInfo keeps only the
# first 1000 entries when no limit is given (genuine defect, fixes/C16-7-no-default-frame-limit.patch).  Set to True
# once that fix is in the tree.
CHAINS_BEYOND_1000_FRAMES = True
VERY_DEEP_TAILS = ('self997', 'self998', 'self2049')      # below run() and f0(): 1000, 1001, 2052 entries
# Shape of the catching function run().  'plain': run() calls f0() once.  'self<k>': run() calls itself k times on the
# line that finally calls f0() (inner activations re-raise, the outermost one catches), so the traceback *begins*
# with k+1 identical entries.
HEADS = ('self2', 'self3', 'self5')
SUBDIR = 'gen pkg \u00e9'                      # modules live under a path with a space and a non-ASCII character

PRELUDE = '''\
# generated by checks/c16_traceback.py
_sink = [0]


class Custom(Exception):
    pass


class BadStr(Exception):
    def __str__(self):
        raise RuntimeError('no str for you')


class Outer:
    class Inner(Exception):
        pass


class MainCls(Exception):
    pass


class StrEmpty(Exception):
    def __str__(self):
        return ''


class StrInt(Exception):
    def __str__(self):
        return 5


class NoModule(Exception):
    pass


class LegacyModule(Exception):
    pass


class LegacyBuiltin(Exception):
    pass


def _make_local():
    class Local(Exception):
        pass
    return Local


Local = _make_local()
MainCls.__module__ = '__main__'
NoModule.__module__ = None
LegacyModule.__module__ = 'exceptions'
LegacyBuiltin.__module__ = '__builtin__'


'''


def program_source(chain, exc, tail='plain', head='plain'):
    """Source text of the module for (chain of link kinds, exception kind, shape of the raising function).  f0 is
    called by run(); link i is entered through f<i> and calls f<i+1>; the last function raises.  run(cb) calls cb
    inside its except block (while the exception is the one "currently being handled")."""
    src = [PRELUDE]
    n = len(chain)
    for i, kind in enumerate(chain):
        me, nxt = 'f%d' % i, 'f%d' % (i + 1)
        if kind == 'plain':
            src.append('def %s():\n    return %s()\n' % (me, nxt))
        elif kind == 'method':
            src.append('class C%d:\n    def m(self):\n        return %s()\n\n\n%s = C%d().m\n' % (i, nxt, me, i))
        elif kind == 'lambda':
            src.append('%s = lambda: %s()\n' % (me, nxt))
        elif kind == 'gen':
            src.append('def g%d():\n    yield %s()\n\n\ndef %s():\n    return next(g%d())\n' % (i, nxt, me, i))
        elif kind == 'listcomp':
            src.append('def %s():\n    return [%s() for _ in (0,)]\n' % (me, nxt))
        elif kind == 'genexpr':
            src.append('def %s():\n    return list(%s() for _ in (0,))\n' % (me, nxt))
        elif kind == 'closure':
            src.append('def %s():\n    def inner():\n        return %s()\n    return inner()\n' % (me, nxt))
        elif kind == 'exec':
            src.append('def %s():\n    exec("%s()")\n' % (me, nxt))
        elif kind == 'multiline':
            src.append('def %s():\n    return (\n        %s()\n    )\n' % (me, nxt))
        elif kind == 'finally':
            src.append('def %s():\n    try:\n        return %s()\n    finally:\n        _sink[0] += 1\n' % (me, nxt))
        elif kind == 'reraise':
            src.append('def %s():\n    try:\n        return %s()\n    except BaseException as exc:\n        raise exc\n'
                       % (me, nxt))
        elif kind == 'reraise_stored':
            src.append('def %s():\n    saved = None\n    try:\n        return %s()\n    except BaseException as exc:\n'
                       '        saved = exc\n    raise saved\n' % (me, nxt))
        elif kind == 'bounce':
            # one source line, alternating function names (f<i> / <lambda>): the interpreter must NOT collapse these
            src.append('def %s(n=3):\n    return (lambda: %s(n - 1))() if n else %s()\n' % (me, me, nxt))
        elif kind == 'linecache':
            # generated code under a synthetic <...> filename whose source is registered in linecache (as attrs,
            # doctest or interactive shells do): the interpreter shows its source lines
            src.append('import linecache as _lcm\n'
                       '_src%d = "def _lc%d():\\n    return %s()\\n"\n'
                       '_fn%d = "<c16gen %%s %d>" %% __name__\n'
                       '_lcm.cache[_fn%d] = (len(_src%d), None, _src%d.splitlines(True), _fn%d)\n'
                       'exec(compile(_src%d, _fn%d, "exec"), globals())\n'
                       '%s = _lc%d\n' % (i, i, nxt, i, i, i, i, i, i, i, i, me, i))
        elif kind in VIRTUAL_LINKS:
            spec = ("'__spec__': _ilm%d.ModuleSpec(_vname%d, _vld%d), " % (i, i, i)) if kind != 'loader' else ''
            ldr = ('"__loader__": _vld%d, ' % i) if kind != 'speconly' else ''
            src.append('import sys as _sys%(i)d, importlib.machinery as _ilm%(i)d\n'
                       '\n\n'
                       'class _Loader%(i)d:\n'
                       '    def get_source(self, name):\n'
                       '        return _vsrc%(i)d if name == _vname%(i)d else None\n'
                       '\n\n'
                       '_vname%(i)d = __name__ + ".virtual%(i)d"\n'
                       '_vsrc%(i)d = "# virtual source\\n\\ndef _v%(i)d():\\n    return _up.%(nxt)s()\\n"\n'
                       '_vpath%(i)d = __file__[:-3] + ".virtual%(i)d.tmpl.py"\n'
                       '_vld%(i)d = _Loader%(i)d()\n'
                       '_vns%(i)d = {"__name__": _vname%(i)d, %(ldr)s%(spec)s'
                       '"_up": _sys%(i)d.modules[__name__]}\n'
                       'exec(compile(_vsrc%(i)d, _vpath%(i)d, "exec"), _vns%(i)d)\n'
                       '%(me)s = _vns%(i)d["_v%(i)d"]\n' % {'i': i, 'nxt': nxt, 'me': me, 'spec': spec.replace("'", '"'), 'ldr': ldr})
        elif kind == 'genfile':
            src.append('import sys as _gsys%(i)d\n'
                       '_gsrc%(i)d = "# generated source\\n\\ndef _g%(i)d():\\n    return _up.%(nxt)s()\\n"\n'
                       '_gpath%(i)d = __file__[:-3] + ".gen%(i)d.py"\n'
                       'with open(_gpath%(i)d, "w", encoding="utf-8") as _gf%(i)d:\n'
                       '    _gf%(i)d.write(_gsrc%(i)d)\n'
                       '_gns%(i)d = {"__name__": __name__ + ".gen%(i)d", "_up": _gsys%(i)d.modules[__name__]}\n'
                       'exec(compile(_gsrc%(i)d, _gpath%(i)d, "exec"), _gns%(i)d)\n'
                       '%(me)s = _gns%(i)d["_g%(i)d"]\n' % {'i': i, 'nxt': nxt, 'me': me})
        elif kind.startswith('rec'):
            k = int(kind[3:])
            src.append('def %s(n=%d):\n    return %s(n - 1) if n else %s()\n' % (me, k, me, nxt))
        else:
            raise ValueError(kind)
        src.append('\n\n')
    if tail == 'plain':
        src.append('def f%d():\n    %s\n\n\n' % (n, RAISE[exc]))
    else:
        k = int(tail[4:])
        src.append('def f%d(n=%d):\n    n and f%d(n - 1); %s\n\n\n' % (n, k, n, RAISE[exc]))
    if head == 'plain':
        src.append('def run(cb=None):\n    try:\n        f0()\n    except BaseException as e:\n'
                   '        return (e, cb()) if cb else e\n    return None\n')
    else:
        k = int(head[4:])
        src.append('def run(cb=None, n=%d):\n    try: return run(cb, n - 1) if n else f0()\n'
                   '    except BaseException as e:\n        if n != %d:\n            raise\n'
                   '        return (e, cb()) if cb else e\n' % (k, k))
    return ''.join(src)


def module_name(chain, exc, tail='plain', head='plain'):
    return 'c16gen_%s__%s%s%s' % ('_'.join(chain) if chain else 'direct', exc, '' if tail == 'plain' else '__' + tail,
                                  '' if head == 'plain' else '__head' + head)


# the third line of a stack entry: indentation, then ~/^ below the failing expression.  When the source line was edited
# after the code was compiled the recorded columns may lie beyond its end and the interpreter prints the indentation alone.
_MARKER_RE = re.compile(r'^ +[~^ ]*$')


def strip_markers(tb_lines):
    """Remove position-marker lines from the lines produced by traceback.format_tb (each element holds the
    'File' line, the source line and, optionally, the marker line of one entry)."""
    out = []
    for entry in tb_lines:
        ls = entry.split('\n')
        # a marker line can only be the third line of an entry that has a source line
        if len(ls) >= 3 and ls[0].startswith('  File "') and _MARKER_RE.match(ls[2]):
            del ls[2]
        out.append('\n'.join(ls))
    return out


def interpreter_view(e, tb=None):
    """Everything the oracle says about exception e (rendered with traceback object tb; default: its own), using only
    the standard traceback module."""
    tb = e.__traceback__ if tb is None else tb
    frames = [[fs.filename, fs.lineno, fs.name, (fs.line or '').strip()] for fs in traceback.extract_tb(tb)]
    whole = ''.join(traceback.format_exception(type(e), e, tb))
    tb_lines = traceback.format_tb(tb)
    only = ''.join(traceback.format_exception_only(type(e), e))
    if whole != HEADER + ''.join(tb_lines) + only:
        raise RuntimeError('oracle decomposition failed: %r' % whole)
    tb_part = HEADER + ''.join(strip_markers(tb_lines))
    # the same stack with every entry rendered on its own (no "[Previous line repeated ...]" collapsing);
    # used only to *classify* a disagreement, never as the expected value
    flat = HEADER + ''.join(strip_markers(
        [''.join(traceback.StackSummary.from_list([fs]).format()) for fs in traceback.extract_tb(tb)]))
    return {'frames': frames, 'tb': tb_part, 'only': only[:-1], 'full': (tb_part + only)[:-1],
            'flat_tb': flat, 'collapsed': '[Previous line repeated' in tb_part}


def load_program(root, chain, exc, tail='plain', head='plain'):
    d = os.path.join(root, SUBDIR)
    os.makedirs(d, exist_ok=True)
    name = module_name(chain, exc, tail, head)
    path = os.path.join(d, name + '.py')
    with open(path, 'w', encoding='utf-8') as f:
        f.write(program_source(chain, exc, tail, head))
    if name in sys.modules:
        raise RuntimeError('module name %s is not unique' % name)
    spec = importlib.util.spec_from_file_location(name, path)
    mod = importlib.util.module_from_spec(spec)
    sys.modules[name] = mod
    spec.loader.exec_module(mod)
    return name, path, mod


def unload_program(name, path):
    sys.modules.pop(name, None)
    for k in [k for k in linecache.cache if k.startswith(path[:-3])]:       # the file and its virtual companions
        linecache.cache.pop(k, None)
    d, stem = os.path.split(path[:-3])
    for fn in [path] + [os.path.join(d, f) for f in os.listdir(d) if f.startswith(stem + '.gen')]:
        try:
            os.unlink(fn)
        except OSError:
            pass


def cool_linecache():
    """Forget every linecache entry that linecache can rebuild by itself (files on disk, loader-backed virtual
    files).  Entries under synthetic '<...>' names were registered by hand and stay.  Called after the oracle was
    asked and before tbutils is: tbutils must find the source lines by itself, not in what the traceback module left
    in the cache.  (TracebackInfo then runs on a cold cache, the classes after it on a warm one.)"""
    for k in [k for k in linecache.cache if not (k.startswith('<') and k.endswith('>'))]:
        linecache.cache.pop(k, None)


def tb_frames(tbi):
    return [[cp.module_path, cp.lineno, cp.func_name, str(cp.line if cp.line is not None else '').strip()]
            for cp in tbi.frames]


def first_difference(want, got, window=4):
    """The lines around the first line at which two texts differ (keeps replays readable)."""
    w, g = want.split('\n'), got.split('\n')
    i = 0
    while i < min(len(w), len(g)) and w[i] == g[i]:
        i += 1
    lo = max(0, i - 1)
    return ({'from_line': lo, 'lines': w[lo:i + window], 'total_lines': len(w)},
            {'from_line': lo, 'lines': g[lo:i + window], 'total_lines': len(g)})


# members reached through an argument-less entry point -> the member with explicit arguments that it delegates to
# (a disagreement already reported for the latter, same observable, same case, is not reported again)
_DELEGATES = {'from_current': 'from_exc_info', 'from_current().get_formatted': 'get_formatted',
              'from_traceback()': 'from_traceback', 'from_traceback().get_formatted': 'get_formatted',
              'from_traceback(tb_next)': 'from_traceback', 'from_traceback(tb_next).get_formatted': 'get_formatted',
              'from_exc_info(type,value,tb_next)': 'from_exc_info',
              'from_exc_info(type,value,tb_next).get_formatted': 'get_formatted',
              'from_exc_info(value.__traceback__=None)': 'from_exc_info',
              'from_exc_info(value.__traceback__=None).get_formatted': 'get_formatted',
              'get_formatted(second-call)': 'get_formatted'}


def grab_current():
    """Called inside the generated program's except block: build the objects through the entry points that take the
    exception "currently being handled".  Returns {'ei': (ok, ExceptionInfo | error text), 'tbi': (ok, ...)}."""
    from boltons import tbutils
    out = {}
    for key, fn in (('ei', tbutils.ExceptionInfo.from_current), ('tbi', tbutils.TracebackInfo.from_traceback)):
        try:
            out[key] = (True, fn())
        except Exception as err:
            out[key] = (False, '%s: %s' % (type(err).__name__, err))
    return out


def compare_program(e, want, exc, contextual=True, handled=None):
    """Compare everything tbutils says about exception e with the interpreter's view `want`.
    `handled`: result of grab_current() run inside the program's except block (or None).
    Returns list of (sig, expected, observed, tags).  Only disagreements about the stack lines of a traceback
    that the interpreter prints with a "[Previous line repeated ...]" summary carry the tag
    frame_repeated_more_than_3_times (violations are grouped by signature and tag set)."""
    from boltons import tbutils
    out = []
    rep_tags = ('frame_repeated_more_than_3_times',) if want['collapsed'] else ()
    seen = set()
    current = [None, None]

    def report(cls, member, what, exp, obs, tags=()):
        # The Contextual* classes inherit every member compared here: a disagreement they merely inherit
        # (same member, same observable, same case) is the base class's defect and is reported once.
        base = cls.replace('Contextual', '')
        if (base, member, what) in seen or (base, _DELEGATES.get(member), what) in seen:
            return
        seen.add((cls, member, what))
        out.append(('C16|fn:%s.%s|%s' % (cls, member, what), exp, obs, tags))

    def guarded(cls, member, fn):
        current[:] = [cls, member]
        try:
            return True, fn()
        except Exception as err:
            report(cls, member, 'raised', 'a result', '%s: %s' % (type(err).__name__, err))
        return False, None

    want_type = want['only'].split(': ')[0].split('\n')[0]

    def compare_exc_line(cls, member, got):
        if got == want['only']:
            return
        if got == want_type or got.startswith(want_type + ':'):
            what = 'exc_line:message:' + MSG_SHAPE[exc]
        else:
            what = 'exc_line:type_name:' + TYPE_SHAPE[exc]
        report(cls, member, what, want['only'], got)

    def compare_tb(cls, member, got):
        """got = stack part of the output, header included.  Returns True when it agrees."""
        if got == want['tb']:
            return True
        exp, obs = first_difference(want['tb'], got)
        if want['collapsed'] and got == want['flat_tb']:
            report(cls, member, 'tb_lines:repeats_not_collapsed', exp, obs, rep_tags)
        else:
            report(cls, member, 'tb_lines', exp, obs, rep_tags)
        return False

    def compare_full(cls, member, got):
        if got == want['full']:
            return
        # say which half disagrees: the stack part or the final exception line(s)
        for tb_text in (want['tb'], want['flat_tb']):
            # (stack lines are indented, the final exception line is not)
            if got.startswith(tb_text) and not got[len(tb_text):].startswith(' '):
                compare_tb(cls, member, tb_text)
                compare_exc_line(cls, member, got[len(tb_text):])
                return
        exp, obs = first_difference(want['full'], got)
        report(cls, member, 'tb_lines', exp, obs, rep_tags)

    def compare_classes(cls_tb, cls_ei):
        tb = e.__traceback__
        tn, en = cls_tb.__name__, cls_ei.__name__
        ok, tbi = guarded(tn, 'from_traceback', lambda: cls_tb.from_traceback(tb))
        if ok:
            ok2, fr = guarded(tn, 'from_traceback', lambda: tb_frames(tbi))
            if ok2 and fr != want['frames']:
                report(tn, 'from_traceback', 'frames', want['frames'], fr)
            ok2, txt = guarded(tn, 'get_formatted', tbi.get_formatted)
            if ok2:
                compare_tb(tn, 'get_formatted', txt)
        ok, ei = guarded(en, 'from_exc_info', lambda: cls_ei.from_exc_info(type(e), e, tb))
        if not ok:
            return
        ok2, fr = guarded(en, 'from_exc_info', lambda: tb_frames(ei.tb_info))
        if ok2 and fr != want['frames']:
            report(en, 'from_exc_info', 'frames', want['frames'], fr)
        ok2, txt = guarded(en, 'get_formatted', ei.get_formatted)
        if ok2:
            compare_full(en, 'get_formatted', txt)
        ok2, txt = guarded(en, 'get_formatted_exception_only', ei.get_formatted_exception_only)
        if ok2:
            compare_exc_line(en, 'get_formatted_exception_only', txt)
        ok2, d = guarded(en, 'to_dict', ei.to_dict)
        if not ok2:
            return
        try:
            back = json.loads(json.dumps(d))
        except (TypeError, ValueError) as err:
            report(en, 'to_dict', 'json', 'JSON-serialisable', repr(err))
            return
        if back != d:
            report(en, 'to_dict', 'json', d, back)
        try:
            fr = [[f['module_path'], f['lineno'], f['func_name'], (f['line'] or '').strip()]
                  for f in d['exc_tb']['frames']]
        except Exception as err:
            fr = repr(err)
        if fr != want['frames']:
            report(en, 'to_dict', 'frames', want['frames'], fr)

    def compare_current():
        ok, tbi = handled['tbi']
        if not ok:
            report('TracebackInfo', 'from_traceback()', 'raised', 'a result', tbi)
        else:
            ok2, fr = guarded('TracebackInfo', 'from_traceback()', lambda: tb_frames(tbi))
            if ok2 and fr != want['frames']:
                report('TracebackInfo', 'from_traceback()', 'frames', want['frames'], fr)
            ok2, txt = guarded('TracebackInfo', 'from_traceback().get_formatted', tbi.get_formatted)
            if ok2:
                compare_tb('TracebackInfo', 'from_traceback().get_formatted', txt)
        ok, ei = handled['ei']
        if not ok:
            report('ExceptionInfo', 'from_current', 'raised', 'a result', ei)
            return
        ok2, fr = guarded('ExceptionInfo', 'from_current', lambda: tb_frames(ei.tb_info))
        if ok2 and fr != want['frames']:
            report('ExceptionInfo', 'from_current', 'frames', want['frames'], fr)
        ok2, txt = guarded('ExceptionInfo', 'from_current().get_formatted', ei.get_formatted)
        if ok2:
            compare_full('ExceptionInfo', 'from_current().get_formatted', txt)

    def compare_other_tracebacks():
        """The (type, value, traceback) triple need not be the one of sys.exc_info() in the outermost handler: a triple
        recorded by an inner handler before the exception propagated further has as its traceback a tail (tb_next...)
        of value.__traceback__; a stored exception may have been stripped of its own (with_traceback(None)).  The
        traceback module renders the traceback object it is given (want['sub']: its view of the tail)."""
        tb = e.__traceback__
        sub, w = tb.tb_next, want.get('sub')
        if sub is not None and w is not None:
            ok, tbi = guarded('TracebackInfo', 'from_traceback(tb_next)', lambda: tbutils.TracebackInfo.from_traceback(sub))
            if ok:
                ok2, fr = guarded('TracebackInfo', 'from_traceback(tb_next)', lambda: tb_frames(tbi))
                if ok2 and fr != w['frames']:
                    report('TracebackInfo', 'from_traceback(tb_next)', 'frames', w['frames'], fr)
                ok2, txt = guarded('TracebackInfo', 'from_traceback(tb_next).get_formatted', tbi.get_formatted)
                if ok2 and txt != w['tb']:
                    report('TracebackInfo', 'from_traceback(tb_next).get_formatted', 'tb_lines',
                           *first_difference(w['tb'], txt), tags=rep_tags)
            member = 'from_exc_info(type,value,tb_next)'
            ok, ei = guarded('ExceptionInfo', member, lambda: tbutils.ExceptionInfo.from_exc_info(type(e), e, sub))
            if ok:
                ok2, fr = guarded('ExceptionInfo', member, lambda: tb_frames(ei.tb_info))
                if ok2 and fr != w['frames']:
                    report('ExceptionInfo', member, 'frames', w['frames'], fr)
                ok2, txt = guarded('ExceptionInfo', member + '.get_formatted', ei.get_formatted)
                if ok2 and txt != w['full']:
                    if txt.startswith(w['tb']) and not txt[len(w['tb']):].startswith(' '):
                        compare_exc_line('ExceptionInfo', member + '.get_formatted', txt[len(w['tb']):])
                    else:
                        report('ExceptionInfo', member + '.get_formatted', 'tb_lines',
                               *first_difference(w['full'], txt), tags=rep_tags)
        member = 'from_exc_info(value.__traceback__=None)'
        try:
            e.__traceback__ = None
            ok, ei = guarded('ExceptionInfo', member, lambda: tbutils.ExceptionInfo.from_exc_info(type(e), e, tb))
            if ok:
                ok2, fr = guarded('ExceptionInfo', member, lambda: tb_frames(ei.tb_info))
                if ok2 and fr != want['frames']:
                    report('ExceptionInfo', member, 'frames', want['frames'], fr)
                ok2, txt = guarded('ExceptionInfo', member + '.get_formatted', ei.get_formatted)
                if ok2:
                    compare_full('ExceptionInfo', member + '.get_formatted', txt)
        finally:
            e.__traceback__ = tb
        # a second rendering of one object, after the caller changed what to_dict() returned
        member = 'get_formatted(second-call)'
        ok, ei = guarded('ExceptionInfo', 'from_exc_info', lambda: tbutils.ExceptionInfo.from_exc_info(type(e), e, tb))
        if ok:
            def twice():
                ei.get_formatted()
                d = ei.to_dict()
                for fr in d['exc_tb']['frames']:
                    fr.clear()
                del d['exc_tb']['frames'][:]
                d.clear()
                return ei.get_formatted(), tb_frames(ei.tb_info)
            ok2, res = guarded('ExceptionInfo', member, twice)
            if ok2:
                compare_full('ExceptionInfo', member, res[0])
                if res[1] != want['frames']:
                    report('ExceptionInfo', member, 'frames', want['frames'], res[1])

    try:
        with budget():                  # one hang guard per program
            compare_classes(tbutils.TracebackInfo, tbutils.ExceptionInfo)
            if handled:
                compare_current()
            if 'sub' in want:
                compare_other_tracebacks()
            if contextual:
                compare_classes(tbutils.ContextualTracebackInfo, tbutils.ContextualExceptionInfo)
    except _Budget:
        report(current[0], current[1], 'no_termination', 'a result', 'no result within %.0f s' % CASE_BUDGET_S)
    return out


def plain_exception(e):
    if e is None or e.__cause__ is not None or e.__context__ is not None or getattr(e, '__notes__', None):
        raise RuntimeError('generated program did not raise a plain exception: %r' % (e,))
    return e


def check_program(root, chain, exc, contextual=True, tail='plain', head='plain'):
    """Generate, load and run one program; compare tbutils with the interpreter.
    Returns (list of (sig, expected, observed, tags), info)."""
    sys.dont_write_bytecode = True
    name, path, mod = load_program(root, chain, exc, tail, head)
    old_limit = sys.getrecursionlimit()
    sys.setrecursionlimit(old_limit + sum(int(x[4:]) for x in (tail, head) if x != 'plain'))
    try:
        # the argument-less entry points delegate to the ones with arguments: exercised wherever the Contextual*
        # classes are (the shorter chains of each part)
        e, current = mod.run(grab_current) if contextual else (mod.run(), None)
        plain_exception(e)
        want = interpreter_view(e)
        if contextual:
            # other (type, value, traceback) triples: exercised wherever the argument-less entry points are
            want['sub'] = interpreter_view(e, e.__traceback__.tb_next) if e.__traceback__.tb_next is not None else None
        cool_linecache()
        out = compare_program(e, want, exc, contextual, current)
        info = {'frames': len(want['frames']), 'collapsed': want['collapsed'],
                'ends_in_summary': want['tb'].endswith(' times]\n') or want['tb'].endswith(' time]\n')}
    finally:
        sys.setrecursionlimit(old_limit)
        unload_program(name, path)
    return out, info


def check_reloaded_program(root, chain, exc):
    """A two-step history: the module is rendered once by tbutils, then edited on disk (all lines move) and executed
    again.  tbutils renders the second exception *before* the traceback module is asked (which refreshes linecache as a
    side effect), and must already show the new source lines."""
    from boltons import tbutils
    sys.dont_write_bytecode = True
    name, path, mod = load_program(root, chain, exc)
    out = []
    try:
        e1 = mod.run()
        tbutils.ExceptionInfo.from_exc_info(type(e1), e1, e1.__traceback__).get_formatted()
        tb_frames(tbutils.TracebackInfo.from_traceback(e1.__traceback__))
        del e1
        with open(path, 'r', encoding='utf-8') as f:
            src = f.read()
        with open(path, 'w', encoding='utf-8') as f:
            f.write('# edited on disk\n_edited = True\n\n' + src)
        st = os.stat(path)
        os.utime(path, (st.st_atime, st.st_mtime + 5))
        spec = importlib.util.spec_from_file_location(name, path)
        mod2 = importlib.util.module_from_spec(spec)
        sys.modules[name] = mod2
        spec.loader.exec_module(mod2)
        e2 = mod2.run()
        got_frames = tb_frames(tbutils.TracebackInfo.from_traceback(e2.__traceback__))
        got_full = tbutils.ExceptionInfo.from_exc_info(type(e2), e2, e2.__traceback__).get_formatted()
        want = interpreter_view(e2)
        if got_frames != want['frames']:
            out.append(('C16|fn:TracebackInfo.from_traceback|frames:after-the-file-changed-on-disk', want['frames'][-2:],
                        got_frames[-2:], ()))
        if got_full != want['full']:
            w, g = first_difference(want['full'], got_full)
            out.append(('C16|fn:ExceptionInfo.get_formatted|tb_lines:after-the-file-changed-on-disk', w, g, ()))
    finally:
        unload_program(name, path)
    return out


def reloaded_shard(arg):
    root, chains = arg
    t = inputs.Tally()
    for chain in chains:
        case = {'part': 'programs-reloaded', 'chain': list(chain), 'exc': 'msg'}
        t.count(nontrivial=True, sample=case)
        for sig, exp, obs, tags in check_reloaded_program(root, chain, 'msg'):
            t.bad(sig, case, exp, obs, tags=tags)
    return t


# ---- sources edited after the exception was raised --------------------------------------------------------------------

# What a source line that a traceback entry points to may look like *now* (the code was loaded earlier: file saved
# again under a running process, template source regenerated, ...).  name -> (text of the line, tag)
LINE_CLASSES = (
    ('empty', '', 'empty_line'),
    ('spaces', '        ', 'whitespace_only_line'),
    ('tab', '\t', 'whitespace_only_line'),
    ('formfeed', '\x0c', 'whitespace_only_line'),
    ('unicode_space', '\u00a0\u2003', 'whitespace_only_line'),
    ('trailing_spaces', '    x = 1    ', 'text_line'),
    ('tabs_around', '\tx = 1\t', 'text_line'),
    ('comment', '    # moved', 'text_line'),
    ('nonascii', '    \u00e9 = "\u00fc: \u20ac"  ', 'text_line'),
    ('long', '    x = (' + '1, ' * 400 + ')', 'text_line'),
)
# 'cut_before': the source ends before the (first) referenced line; 'cut_after_no_newline': it ends with the (last)
# referenced line, without a line terminator; 'gone': the file was deleted / the loader has no source any more
STRUCTURAL_EDITS = ('cut_before', 'cut_after_no_newline', 'gone')
EDIT_OPS = tuple(n for n, _, _ in LINE_CLASSES) + STRUCTURAL_EDITS
EDIT_TAG = dict([(n, t) for n, _, t in LINE_CLASSES] + [(n, 'source_' + n) for n in STRUCTURAL_EDITS])
_VIRTUAL_RE = re.compile(r'\.virtual(\d+)\.tmpl\.py$')
_GENFILE_RE = re.compile(r'\.gen(\d+)\.py$')


class Sources:
    """The editable sources behind the entries of one generated program's traceback: the module file on disk,
    loader-published virtual sources (module global _vsrc<i>), hand-registered linecache entries."""

    def __init__(self, path, mod):
        self.path, self.mod = path, mod
        self.orig = {}

    def kind(self, filename):
        if filename == self.path or (_GENFILE_RE.search(filename) and filename.startswith(self.path[:-3])):
            return 'file'
        m = _VIRTUAL_RE.search(filename)
        if m and filename.startswith(self.path[:-3]) and hasattr(self.mod, '_vsrc' + m.group(1)):
            return 'loader'
        if filename.startswith('<c16gen ') and filename in linecache.cache:
            return 'linecache'
        return None

    def read(self, filename):
        if filename not in self.orig:
            kind = self.kind(filename)
            if kind == 'file':
                with open(filename, 'r', encoding='utf-8', newline='') as f:
                    self.orig[filename] = (kind, f.read())
            elif kind == 'loader':
                self.orig[filename] = (kind, getattr(self.mod, '_vsrc' + _VIRTUAL_RE.search(filename).group(1)))
            else:
                self.orig[filename] = (kind, ''.join(linecache.cache[filename][2]))
        return self.orig[filename][1]

    def write(self, filename, text):
        kind = self.orig[filename][0]
        if kind == 'file':
            if text is None:
                try:
                    os.unlink(filename)
                except OSError:
                    pass
            else:
                with open(filename, 'w', encoding='utf-8', newline='') as f:
                    f.write(text)
        elif kind == 'loader':
            setattr(self.mod, '_vsrc' + _VIRTUAL_RE.search(filename).group(1), text)
        elif text is None:
            linecache.cache.pop(filename, None)
        else:
            linecache.cache[filename] = (len(text), None, text.splitlines(True), filename)

    def restore(self):
        for filename, (kind, text) in self.orig.items():
            self.write(filename, text)


def edited_text(text, linenos, op):
    lines = text.split('\n')
    if op == 'gone':
        return None
    if op == 'cut_before':
        head = lines[:min(linenos) - 1]
        return '\n'.join(head) + '\n' if head else ''
    if op == 'cut_after_no_newline':
        return '\n'.join(lines[:max(linenos)])
    new = dict((n, t) for n, t, _ in LINE_CLASSES)[op]
    for ln in linenos:
        lines[ln - 1] = new
    return '\n'.join(lines)


def edit_targets(frames, sources):
    """[(target id, [(filename, lineno), ...])]: one target per distinct editable (file, line) the traceback refers
    to (id = index of the first entry that does), then 'all' of them at once."""
    seen, out = {}, []
    for i, fr in enumerate(frames):
        key = (fr[0], fr[1])
        if key not in seen and sources.kind(fr[0]):
            seen[key] = i
            out.append((i, [key]))
    if len(out) > 1:
        out.append(('all', [k for _, ks in out for k in ks]))
    return out


def check_edited_program(root, chain, exc, contextual=True, only=None, all_only=False):
    """Run the program, then for every (target, edit op) - or the single pair `only` - edit the sources the traceback
    points to and compare tbutils with the interpreter on the *same* exception object.
    Yields (target, op, changed, [(sig, expected, observed, tags)])."""
    sys.dont_write_bytecode = True
    name, path, mod = load_program(root, chain, exc)
    try:
        e = plain_exception(mod.run())
        base = interpreter_view(e)
        sources = Sources(path, mod)
        gone_done = set()
        for target, keys in edit_targets(base['frames'], sources):
            if all_only and target != 'all':
                continue
            by_file = {}
            for fn, ln in keys:
                by_file.setdefault(fn, []).append(ln)
            for op in EDIT_OPS:
                if only is not None and [target, op] != list(only):
                    continue
                if op == 'gone' and target != 'all':
                    # deleting a source is the same edit for every line of it: once per file
                    if keys[0][0] in gone_done:
                        continue
                    gone_done.add(keys[0][0])
                try:
                    for fn, lns in by_file.items():
                        sources.write(fn, edited_text(sources.read(fn), lns, op))
                    cool_linecache()
                    want = interpreter_view(e)
                    cool_linecache()
                    res = compare_program(e, want, exc, contextual)
                finally:
                    sources.restore()
                yield (target, op, want['full'] != base['full'],
                       [(sig + ':source-edited', exp, obs, tuple(tags) + (EDIT_TAG[op],)) for sig, exp, obs, tags in res])
    finally:
        unload_program(name, path)
        cool_linecache()


def edited_shard(arg):
    root, items = arg
    t = inputs.Tally()
    for chain, all_only in items:
        for target, op, changed, res in check_edited_program(root, chain, 'msg', len(chain) <= 1, all_only=all_only):
            case = {'part': 'programs-edited', 'chain': list(chain), 'exc': 'msg', 'contextual': len(chain) <= 1,
                    'edit': [target, op]}
            t.count(nontrivial=changed, sample=case if changed else None)
            for sig, exp, obs, tags in res:
                t.bad(sig, case, exp, obs, tags=tags)
    return t


# ---- histories of source availability ------------------------------------------------------------------------------------

# State of every source the traceback refers to while one more exception is raised (the code stays loaded) and rendered:
# 'orig' as loaded, 'gone' (file deleted or not yet written / loader without source / linecache entry dropped),
# 'shifted' (two lines inserted at the top: every entry now points at other text).
SOURCE_STATES = ('orig', 'gone', 'shifted')
STATE_TAG = {'orig': 'source_as_loaded', 'gone': 'source_gone', 'shifted': 'source_shifted'}


def source_histories(length):
    """Every sequence of `length` states without immediate repetition (its prefixes are the shorter histories)."""
    return [h for h in itertools.product(SOURCE_STATES, repeat=length) if all(a != b for a, b in zip(h, h[1:]))]


def check_source_history(root, chain, exc, history):
    """A history in one process: for each state in turn, put the sources into that state, let the loaded program raise
    a NEW exception and have tbutils render it *before* the traceback module is asked (what either of them - or the
    earlier steps - left in linecache stays); then once more the usual way (oracle and tbutils each from a linecache
    without rebuildable entries).  Returns (index of the first disagreeing step | None, [(sig, exp, obs, tags)])."""
    from boltons import tbutils
    sys.dont_write_bytecode = True
    name, path, mod = load_program(root, chain, exc)
    try:
        base = interpreter_view(plain_exception(mod.run()))
        sources = Sources(path, mod)
        files = sorted(set(fr[0] for fr in base['frames'] if sources.kind(fr[0])))
        for fn in files:
            sources.read(fn)
        cool_linecache()
        try:
            for step, state in enumerate(history):
                for fn in files:
                    text = sources.read(fn)
                    sources.write(fn, {'orig': text, 'gone': None, 'shifted': '# shifted\n\n' + text}[state])
                    if sources.orig[fn][0] == 'file' and state != 'gone':
                        st = os.stat(fn)
                        os.utime(fn, (st.st_atime, st.st_mtime + 5 * (step + 1)))
                e = plain_exception(mod.run())
                out, tags = [], (STATE_TAG[state],)
                try:
                    with budget():
                        got_frames = tb_frames(tbutils.TracebackInfo.from_traceback(e.__traceback__))
                        got_full = tbutils.ExceptionInfo.from_exc_info(type(e), e, e.__traceback__).get_formatted()
                except _Budget:
                    out.append(('C16|fn:TracebackInfo.from_traceback|no_termination:source-history', 'a result',
                                'no result within %.0f s' % CASE_BUDGET_S, tags))
                except Exception as err:
                    out.append(('C16|fn:TracebackInfo.from_traceback|raised:source-history', 'a result',
                                '%s: %s' % (type(err).__name__, err), tags))
                else:
                    want = interpreter_view(e)
                    if got_frames != want['frames']:
                        out.append(('C16|fn:TracebackInfo.from_traceback|frames:source-history', want['frames'][-3:],
                                    got_frames[-3:], tags))
                    if got_full != want['full']:
                        w, g = first_difference(want['full'], got_full)
                        out.append(('C16|fn:ExceptionInfo.get_formatted|tb_lines:source-history', w, g, tags))
                cool_linecache()
                want = interpreter_view(e)
                cool_linecache()
                out += [(sig + ':source-history', exp, obs, tuple(t) + tags)
                        for sig, exp, obs, t in compare_program(e, want, exc, False)]
                if out:
                    return step, out
        finally:
            sources.restore()
    finally:
        unload_program(name, path)
        cool_linecache()
    return None, []


def history_shard(arg):
    root, chains, length = arg
    t = inputs.Tally()
    for chain in chains:
        for history in source_histories(length):
            step, res = check_source_history(root, chain, 'msg', history)
            case = {'part': 'programs-histories', 'chain': list(chain), 'exc': 'msg',
                    'history': list(history if step is None else history[:step + 1])}
            t.count(nontrivial=True, sample=case)
            t.add('renderings_compared', len(history) if step is None else step + 1)
            for sig, exp, obs, tags in res:
                t.bad(sig, case, exp, obs, tags=tags)
    return t


def edited_programs(tier):
    """(chain, all_only): every referenced line separately (and all at once) for the short chains, all at once only
    for the chains one link longer."""
    full = 1 if tier == 'quick' else 2
    out = []
    for n in range(full + 2):
        for c in itertools.product(LINKS + OFFMODULE_LINKS, repeat=n):
            out.append((c, n > full))
    return out


def program_chains(tier):
    """Chains in simplest-first order."""
    maxlen = 3 if tier == 'quick' else 4
    vlen = maxlen - 1                       # chains containing a virtual link: one link shorter
    for n in range(maxlen + 1):
        for c in itertools.product(LINKS + SHORT_LINKS, repeat=n):
            if n <= vlen or not (set(c) & set(SHORT_LINKS)):
                yield c
    deep = (4,) if tier == 'quick' else (5, 6)
    for n in deep:
        yield from itertools.product(DEEP_LINKS, repeat=n)


def tail_programs(tier):
    """(chain, tail, head) triples for the part programs-tails, simplest first: every tail below a plain run(); for
    the chains one link shorter every head above a plain raising function and above one tail."""
    maxlen = 2 if tier == 'quick' else 3
    out = []
    for n in range(maxlen + 1):
        for c in itertools.product(LINKS + OFFMODULE_LINKS, repeat=n):
            out += [(c, tail, 'plain') for tail in TAILS]
            if n < maxlen:
                out += [(c, tail, head) for head in HEADS for tail in ('plain', TAILS[1])]
    return out


def deep_tail_programs(tier):
    out = ([(c, tail, 'plain') for tail in DEEP_TAILS for c in ((), ('plain',), ('rec4',))] +
           [((), 'plain', DEEP_TAILS[1]), (('plain',), DEEP_TAILS[0], DEEP_TAILS[1])])
    if CHAINS_BEYOND_1000_FRAMES:
        out += [(('plain',), tail, 'plain') for tail in VERY_DEEP_TAILS] + [(('plain',), 'plain', VERY_DEEP_TAILS[-1])]
    return out


def program_shard_fn(root, contextual_maxlen, part='programs', excs=EXC_KINDS):
    """Shard over items that are chains (plain tail and head) or (chain, tail, head) triples."""
    def shard(items):
        t = inputs.Tally()
        for item in items:
            chain, tail, head = item if part != 'programs' else (item, 'plain', 'plain')
            for exc in excs:
                case = {'part': part, 'chain': list(chain), 'exc': exc,
                        'contextual': len(chain) <= contextual_maxlen}
                if tail != 'plain':
                    case['tail'] = tail
                if head != 'plain':
                    case['head'] = head
                res, info = check_program(root, chain, exc, case['contextual'], tail, head)
                t.count(nontrivial=len(chain) >= 1 or part != 'programs',
                        sample=case if (len(chain) >= 2 or part != 'programs') else None)
                t.add('frames_compared', info['frames'])
                if info['collapsed']:
                    t.add('programs_with_collapsed_repeats', 1)
                if info['ends_in_summary']:
                    t.add('programs_whose_last_stack_line_is_a_repeat_summary', 1)
                for sig, exp, obs, tags in res:
                    t.bad(sig, case, exp, obs, tags=tags)
        return t
    return shard


def rel_all(chains, ctx):
    return [c for c in chains if len(c) <= (1 if ctx.quick() else 2)]


def contiguous(items, n):
    """Split into <= n contiguous blocks (keeps the simplest-first order across shards)."""
    items = list(items)
    n = max(1, min(n, len(items)))
    size = -(-len(items) // n)
    return [items[i:i + size] for i in range(0, len(items), size)]


# ====================================================================================================

def run(ctx):
    pieces()
    inputs.run_shards(ctx, text_shard, text_units(ctx.tier), part='texts',
                      rule='text has at least one frame entry')
    inputs.run_shards(ctx, marker_shard, marker_units(ctx.tier), part='markers',
                      rule='text has at least one position-marker line')
    root = core.scratch_dir('c16')
    try:
        chains = list(program_chains(ctx.tier))
        ctx_maxlen = 2 if ctx.quick() else 3
        inputs.run_shards(ctx, program_shard_fn(root, ctx_maxlen), contiguous(chains, 64), part='programs',
                          rule='at least one link between run() and the raising function')
        kinds = EXTRA_EXC_KINDS + (ODD_MODULE_KINDS if ODD_MODULE_EXC_KINDS else ())
        inputs.run_shards(ctx, program_shard_fn(root, ctx_maxlen, 'programs-exckinds', kinds),
                          contiguous([(c, 'plain', 'plain') for c in rel_all(chains, ctx)], 16), part='programs-exckinds',
                          rule='further kinds of exception object (EXTRA_EXC_KINDS) through the shortest chains')
        inputs.run_shards(ctx, program_shard_fn(root, 1 if ctx.quick() else 2, 'programs-tails', TAIL_EXCS),
                          contiguous(tail_programs(ctx.tier), 32), part='programs-tails',
                          rule='the raising function calls itself on the raising line and/or the catching function on '
                               'the calling line: the traceback ends / begins with a run of identical entries')
        inputs.run_shards(ctx, program_shard_fn(root, 0, 'programs-tails-deep', ('msg',)),
                          contiguous(deep_tail_programs(ctx.tier), 16), part='programs-tails-deep',
                          rule='directed, not exhaustive: long first / final runs of identical entries')
        rel = [c for c in chains if len(c) <= (1 if ctx.quick() else 2) and 'linecache' not in c and 'exec' not in c]
        inputs.run_shards(ctx, reloaded_shard, [(root, b) for b in contiguous(rel, 16)], part='programs-reloaded',
                          rule='module rendered once, edited on disk, executed and rendered again (tbutils first)')
        hist_len = 3 if ctx.quick() else 4
        inputs.run_shards(ctx, history_shard, [(root, b, hist_len) for b in contiguous(rel_all(chains, ctx), 32)],
                          part='programs-histories',
                          rule='the sources behind the traceback change state (as loaded / gone / shifted) between '
                               'exceptions raised by the same loaded code; tbutils renders each before the oracle does')
        inputs.run_shards(ctx, edited_shard, [(root, b) for b in contiguous(edited_programs(ctx.tier), 32)],
                          part='programs-edited',
                          rule='the interpreter renders the exception differently after the edit than before')
    finally:
        shutil.rmtree(root, ignore_errors=True)
    cov = ctx.coverage
    cov['rule'] = ('texts/markers: the text contains at least one frame entry; programs: the call chain has at '
                   'least one link between run() and the raising function')
    cov['exhaustive'] = True
    quick = ctx.quick()
    cov['bounds'] = {
        'texts': {'frames': '0-2 over the full %d-entry frame menu' % len(FRAME_MENU) + (
                      ', 3 over the %d-entry reduced menu' % len(SMALL_MENU) if quick else
                      ', 3 over the %d-entry medium menu, 4 over the %d-entry reduced menu'
                      % (len(MEDIUM_MENU), len(SMALL_MENU))),
                  'paths': PATHS, 'linenos': LINES, 'functions': FUNCS, 'source_lines': SOURCES,
                  'lookalike_source_lines': LOOKALIKE_SOURCES,
                  'metacharacter_source_lines': META_SOURCES, 'metacharacter_paths': META_PATHS,
                  'metacharacter_messages': META_MESSAGES,
                  'control_sequence_messages (among extra_messages)': CONTROL_MESSAGES,
                  'control_sequence_source_lines (among metacharacter_source_lines)': CONTROL_SOURCES,
                  'metacharacter_frames': 'texts with at least one frame that has a metacharacter source line or path, '
                                          'below every message of the menu and every metacharacter message (these also '
                                          'as UTF-8 bytes): 1 frame with every path/line/function/source line (%d); 2 '
                                          'frames: each of %d such frames before and after each other and every entry '
                                          'of the reduced menu%s' % (len(META_ALL), len(META_MENU), '' if quick else
                                                                     '; 3 frames over these + the reduced menu'),
                  'lookalike_frames': 'texts with at least one frame whose source line is a lookalike: 1 frame with '
                                      'every path/line/function; 2 frames: each lookalike frame before and after every '
                                      'entry of the full menu and every other lookalike; %s frames over the %d '
                                      'lookalike frames + the reduced menu'
                                      % ('3' if quick else '3-4', len(LOOK_MENU)),
                  'exception_types': EXC_TYPES, 'messages': MESSAGES,
                  'extra_messages': [m if len(m) < 100 else m[:20] + '...(%d characters)' % len(m) for m in EXTRA_MESSAGES],
                  'extra_messages_with': 'all messages (menu + extra), as str and as UTF-8 bytes: 0-1 frames over the full '
                                         'menu, %s' % ('1 lookalike frame (one surrounding each), 2 frames over the reduced '
                                                       'menu' if quick else '1 lookalike frame (every surrounding), 2 '
                                                       'frames over the full menu, 3 over the reduced menu')},
        'markers': {'marker_lines': MARKERS, 'placement': 'every non-empty subset of the source-bearing frames',
                    'frames': ('1-3 over the reduced menu' if quick else '1-2 full menu, 3 reduced menu') +
                              '; lookalike source lines: 1 frame with every surrounding, %s frames over lookalike '
                              'frames + reduced menu' % ('2' if quick else '2-3')},
        'programs': {'links': LINKS, 'virtual_links': VIRTUAL_LINKS, 'generated_file_links': GENERATED_LINKS,
                     'reraise_links': RERAISE_LINKS,
                     'chain_length': ('0-3 over all links, 4 over %s' % (DEEP_LINKS,) if quick
                                      else '0-4 over all links, 5-6 over %s' % (DEEP_LINKS,)) +
                                     '; chains containing a virtual, generated-file or re-raising link: 0-%d' % (2 if quick else 3),
                     'linecache': 'entries that linecache can rebuild itself are dropped between asking the traceback '
                                  'module and asking tbutils (TracebackInfo on a cold cache, later classes warm)',
                     'exception_kinds': {k: RAISE[k] for k in EXC_KINDS},
                     'extra_exception_kinds': dict({k: RAISE[k] for k in EXTRA_EXC_KINDS},
                                                   chain_length='0-%d' % (1 if quick else 2),
                                                   odd___module___values=ODD_MODULE_EXC_KINDS),
                     'classes': 'TracebackInfo, ExceptionInfo for every program; ContextualTracebackInfo, '
                                'ContextualExceptionInfo for chains of length <= %d' % (2 if quick else 3),
                     'entry_points': 'TracebackInfo.from_traceback(tb), ExceptionInfo.from_exc_info(type, value, tb); '
                                     'for chains of length <= %d also, inside the except block of the program: '
                                     'TracebackInfo.from_traceback(), ExceptionInfo.from_current()'
                                     % (2 if quick else 3),
                     'other_triples': 'for the same chains: TracebackInfo.from_traceback(tb.tb_next), '
                                      'ExceptionInfo.from_exc_info(type, value, tb.tb_next) against the traceback module '
                                      'given the same triple; from_exc_info(type, value, tb) with '
                                      'value.__traceback__ set to None; get_formatted() of one ExceptionInfo a second '
                                      'time after the dict returned by its to_dict() was emptied by the caller'},
        'programs-tails': {'tails': TAILS, 'heads': HEADS, 'exception_kinds': TAIL_EXCS,
                           'chain_length': 'every tail below a plain run(): 0-%d over all links; every head above a plain '
                                           'raising function and above tail %s: 0-%d over all links'
                                           % (2 if quick else 3, TAILS[1], 1 if quick else 2)},
        'programs-tails-deep (directed scenarios, NOT an exhaustive space)': {
            'programs': [list(map(str, x)) for x in deep_tail_programs(ctx.tier)],
            'beyond_1000_frames': CHAINS_BEYOND_1000_FRAMES},
        'programs-histories': {'states': SOURCE_STATES,
                               'histories': 'every sequence of %d states without immediate repetition, checked after '
                                            'every step' % (3 if quick else 4),
                               'chain_length': '0-%d over all links' % (1 if quick else 2), 'exception_kinds': ('msg',)},
        'programs-edited': {'line_classes': [n for n, _, _ in LINE_CLASSES], 'structural_edits': STRUCTURAL_EDITS,
                            'sources': 'module file on disk, loader-published virtual source, hand-registered linecache '
                                       'entry (code run by exec from a plain string has no source to edit)',
                            'targets': 'chains of length 0-%d: each distinct referenced (file, line) on its own and all '
                                       'at once; chains of length %d: all at once' % ((1, 2) if quick else (2, 3)),
                            'exception_kinds': ('msg',)},
    }
    cov['bounds']['texts']['repeat_summary_lines'] = (
        'entry x3 + "[Previous line repeated N more times]", N in %s, reduced menu + 5 metacharacter frames, optionally one other entry before / '
        'after or a second summarised run' % (REPEAT_COUNTS,) if REPEAT_SUMMARY_TEXTS else
        'NOT explored (switched off: known defect, see REPEAT_SUMMARY_TEXTS)')
    ctx.assumptions += [
        'oracle for live programs is CPython %d.%d traceback.extract_tb/format_tb/format_exception_only; lines '
        'consisting of spaces and ~/^ (or, for columns beyond the end of an edited line, of spaces alone) directly below '
        'the source line of a stack entry are position markers and are removed'
        % sys.version_info[:2],
        'traceback texts end without a final line terminator (to_string() returns none)',
        'a recovered line number may be an int or its decimal string; an absent source line may be "" or None',
        'source text is compared after stripping surrounding white space (the traceback module strips it)',
        'messages whose last line looks like "Exception ... ignored" are outside the text menu',
        'messages ending in a newline are outside the text menu (the unterminated text of message "a\\n" is the '
        'terminated text of message "a"); messages containing a str.splitlines boundary other than "\\n" (\\r, \\x0b, '
        '\\x0c, \\x1c-\\x1e, \\x85, \\u2028, \\u2029) are NOT explored: from_string splits them into lines and '
        'to_string() joins with "\\n" (seen on the unchanged tree, reported as a defect candidate)'
        if not SPLITLINES_BOUNDARY_MESSAGES else
        'messages ending in a newline are outside the text menu (the unterminated text of message "a\\n" is the '
        'terminated text of message "a")',
        'virtual code is published through __loader__, through __spec__.loader, or both',
        'part programs-tails-deep is a finite list of directed scenarios (long runs of one entry), not an enumeration; '
        'call chains deeper than 1000 frames are %s' % ('included' if CHAINS_BEYOND_1000_FRAMES else
                                                       'NOT explored (switched off: known defect, see '
                                                       'CHAINS_BEYOND_1000_FRAMES)'),
        'programs-edited: the sources are edited after the exception was raised and both the traceback module and '
        'tbutils render it afterwards, each from a linecache without rebuildable entries',
    ]


def replay(ctx, data):
    case = data['case']
    only = data.get('signature')           # a case may violate several signatures; replay the recorded one
    msgs = []
    if case['part'] in ('texts', 'markers'):
        for sig, exp, obs in check_text(case):
            if only in (None, sig):
                msgs.append('%s expected=%r observed=%r' % (sig, exp, obs))
        return msgs
    root = core.scratch_dir('c16-replay')
    try:
        if case['part'] == 'programs-edited':
            msgs = []
            for target, op, changed, res in check_edited_program(root, tuple(case['chain']), case['exc'],
                                                                 case.get('contextual', True), only=case['edit']):
                msgs += ['%s expected=%r observed=%r' % (sig, exp, obs) for sig, exp, obs, tags in res
                         if only in (None, sig)]
            return msgs
        if case['part'] == 'programs-histories':
            step, res = check_source_history(root, tuple(case['chain']), case['exc'], tuple(case['history']))
            return ['%s expected=%r observed=%r' % (sig, exp, obs) for sig, exp, obs, tags in res if only in (None, sig)]
        if case['part'] == 'programs-reloaded':
            res = check_reloaded_program(root, tuple(case['chain']), case['exc'])
            return ['%s expected=%r observed=%r' % (sig, exp, obs) for sig, exp, obs, tags in res if only in (None, sig)]
        res, _ = check_program(root, tuple(case['chain']), case['exc'], case.get('contextual', True),
                               case.get('tail', 'plain'), case.get('head', 'plain'))
    finally:
        shutil.rmtree(root, ignore_errors=True)
    for sig, exp, obs, tags in res:
        if only in (None, sig):
            msgs.append('%s expected=%r observed=%r' % (sig, exp, obs))
    return msgs

"""C05 - a failed or refused atomic_save leaves the destination intact and cleans up.

Engine E4 (mc.envfaults), deviation-bounded fault injection: for every configuration, every execution of the real
AtomicSaver with exactly one (quick) / up to two (thorough) deviations from "every OS call succeeds" is run in a real
scratch directory.  Deviations: an errno from the menu at os.open / chmod / stat / fsync / rename / link / unlink, at a
raw write (also a short write) or raw close of the part file, and the environment action "another process creates the
destination" just before any call.  Besides the flag product, extra_configs() adds argument shapes and initial states
(part_file=, buffering=, relative destination, atomic_save(), destination = symlink / directory / hard-linked file, part
file = dangling symlink or hard-linked by the body), explored with one deviation in the quick tier.
"""
import errno
import stat
import json
import os
import shutil

from mc import core, envfaults

PROPERTY = 'C05'
LEVEL = 'fault_enumeration'

OLD = b'OLD-CONTENT\n'
OLD_MODE = 0o626
FOREIGN = b'FOREIGN-PART-FILE\n'
FOREIGN_MODE = 0o604
OTHER = b'WRITTEN-BY-ANOTHER-PROCESS\n'
OTHER_MODE = 0o600
BIG = 3 * 8192 + 7

E = errno
MENU = {
    'open': [E.EEXIST, E.EACCES, E.ENOSPC],
    'chmod': [E.EPERM],
    'stat': [E.EACCES],
    'fsync': [E.EIO],
    'rename': [E.EACCES, E.EXDEV, E.ENOSPC],
    'replace': [E.EACCES, E.EXDEV],
    'link': [E.EEXIST, E.EXDEV, E.EACCES, E.EPERM],
    'unlink': [E.EACCES],
    'raw_write': [E.ENOSPC, E.EIO],
    'raw_close': [E.EIO],
}


# The code under test may treat particular errnos specially ("not supported here, carry on"): in the single-fault pass
# every call is failed with *each* errno of this list, not only with the typical one above
WIDE = [E.EIO, E.ENOSPC, E.EACCES, E.EPERM, E.EROFS, E.EINVAL, E.ENOTSUP, E.EDQUOT, E.EBADF, E.ENOENT, E.EBUSY, E.ENOMEM,
        E.ENOSYS]
# any other file-system call of the traced set that the code may come to use (fchmod, ftruncate, utime, chown, ...)
OTHER_CALLS = [E.EPERM]
NOT_FAILED = ('lstat', 'close')        # existence probes of the harness-visible kind; os.close is not a listed step


LISTED_STEPS = ('open', 'chmod', 'fchmod', 'raw_write', 'fsync', 'fdatasync', 'raw_close', 'link', 'rename', 'replace')


class BodyError(Exception):
    pass


BODY_EXC = {'BodyError': BodyError, 'SystemExit': SystemExit, 'KeyboardInterrupt': KeyboardInterrupt}
REUSE_MODE = 0o611
SNAP = 'snap'                   # sub-directory that receives the body's hard link to its part file
DECOY = b'UNRELATED-FILE-WITH-THE-DEFAULT-PART-NAME\n'
DIR_MODE = 0o751
# A body that changes the working directory while the destination was given as a relative path: on the tree without
# fixes/C05-relative-part-path.patch the part file is looked for relative to the *new* directory (rename fails with ENOENT
# and the part file stays behind).  Switch on once that fix is applied.
CHDIR_BODY = True


def body_plan(kind):
    if kind == 'none':
        return []
    if kind == 'small':
        return [('write', 'new-content\n')]
    if kind == 'large':
        return [('write', 'head\n'), ('write', 'L' * BIG), ('write', 'tail\n')]
    if kind == 'raises':
        return [('write', 'partial\n'), ('raise',), ('write', 'never\n')]
    if kind == 'large_raises':
        return [('write', 'M' * BIG), ('raise',)]
    if kind == 'sysexit':       # the interpreter's own exit paths are not ordinary exceptions
        return [('write', 'partial\n'), ('raise', 'SystemExit'), ('write', 'never\n')]
    if kind == 'kbint':
        return [('write', 'partial\n'), ('raise', 'KeyboardInterrupt')]
    if kind == 'same_as_old':       # the new content happens to equal what the destination holds already
        return [('write', OLD.decode('ascii'))]
    if kind == 'same_as_other':     # ... or what another process writes to the destination meanwhile
        return [('write', OTHER.decode('ascii'))]
    if kind == 'small_linked':      # a snapshot/backup tool (or the body) hard-links the part file in progress
        return [('write', 'new-content\n'), ('hardlink',)]
    if kind == 'raises_linked':
        return [('write', 'partial\n'), ('hardlink',), ('raise',)]
    if kind == 'small_chdir':       # the body changes the working directory
        return [('write', 'new-content\n'), ('chdir',)]
    if kind == 'raises_chdir':
        return [('write', 'partial\n'), ('chdir',), ('raise',)]
    if kind == 'closes_raises':     # the body closes the part file itself (nested `with f:`), then fails
        return [('write', 'partial\n'), ('close',), ('raise',)]
    raise AssertionError(kind)


def new_content(plan):
    return ''.join(st[1] for st in plan if st[0] == 'write').encode('utf-8')


def configs(tier):
    out = []
    quick = tier == 'quick'
    for overwrite in (True, False):
        for overwrite_part in (False, True):
            for rm_part in (True, False):
                for text in (False, True):
                    for perms in (None, 0o600, 0o664):
                        for umask in (0o022, 0o077, 0):
                            for dest in (False, True):
                                for part in (False, True):
                                    for body in ('none', 'small', 'large', 'raises', 'large_raises'):
                                        out.append({'overwrite': overwrite, 'overwrite_part': overwrite_part,
                                                    'rm_part_on_exc': rm_part, 'text_mode': text, 'file_perms': perms,
                                                    'umask': umask, 'dest_present': dest, 'part_present': part,
                                                    'body': body})
    base = {'overwrite': True, 'overwrite_part': False, 'rm_part_on_exc': True, 'text_mode': False, 'file_perms': None,
            'umask': 0o022, 'dest_present': True, 'part_present': False, 'body': 'small'}
    # the body leaves through SystemExit / KeyboardInterrupt (sys.exit(), Ctrl-C) after a partial write
    for body in ('sysexit', 'kbint', 'closes_raises'):
        for text in (False, True):
            for dest in (False, True):
                for rm_part in (True, False):
                    for overwrite in (True, False):
                        out.append(dict(base, body=body, text_mode=text, dest_present=dest, rm_part_on_exc=rm_part,
                                        overwrite=overwrite))
    # an explicit mode of 0 is a requested mode, not "no mode given"
    for umask in (0o022, 0):
        for dest in (False, True):
            for body in ('small', 'raises'):
                out.append(dict(base, file_perms=0, umask=umask, dest_present=dest, body=body))
    # "the permissions of the file it replaces", for less usual modes: no owner bits at all, a single bit, the sticky bit,
    # and (where the process may set them: root) set-group-id / set-user-id modes
    modes = [0o066, 0o004, 0o400, 0o1644, 0o777]
    if os.geteuid() == 0:
        modes += [0o2750, 0o4711]
    for m in modes:
        for umask in (0o022, 0):
            for text in (False, True):
                for body in ('small', 'large', 'raises'):
                    out.append(dict(base, old_mode=m, umask=umask, text_mode=text, body=body))
    # new content identical to the old one (the requested permissions must still be applied, the save still be a save) and
    # identical to what another process creates meanwhile (overwrite=False must still refuse)
    for perms in (None, 0o600, 0o664):
        for text in (False, True):
            out.append(dict(base, file_perms=perms, text_mode=text, body='same_as_old'))
            out.append(dict(base, file_perms=perms, text_mode=text, body='same_as_other', dest_present=False, overwrite=False))
            out.append(dict(base, file_perms=perms, text_mode=text, body='same_as_other', dest_present=False))
    # "overwrite=False and the destination exists at entry": it also exists when it is a symbolic link, dangling or not
    for kind in ('symlink_dangling', 'symlink_to_file'):
        for text in (False, True):
            for body in ('small', 'none'):
                out.append(dict(base, overwrite=False, dest_kind=kind, text_mode=text, body=body))
    # the explicit form of the API - setup(), write to part_file, __exit__(None, None, None) or __exit__(*exc_info) -
    # once, and twice on one object
    for body in ('small', 'raises'):
        for dest in (False, True):
            out.append(dict(base, dest_present=dest, body=body, manual=True))
            out.append(dict(base, dest_present=dest, body=body, manual=True, reuse=True))
    # requested modes with bits above 0o777 (sticky; as root also set-gid / set-uid)
    if os.geteuid() == 0:
        for perms in (0o1644, 0o2750, 0o4755):
            for dest in (False, True):
                out.append(dict(base, file_perms=perms, dest_present=dest))
                out.append(dict(base, file_perms=perms, dest_present=dest, body='raises'))
    # a pre-existing part file that is old (two days): age is no licence to reuse or remove it
    for overwrite_part in (False, True):
        for body in ('small', 'raises'):
            out.append(dict(base, part_present=True, part_age=2 * 86400, overwrite_part=overwrite_part, body=body))
    # one AtomicSaver object used for two saves in a row (the destination is chmod-ed to 0o611 in between): the second
    # save is the one explored
    for perms in (None, 0o600):
        for umask in (0o022, 0o077):
            for dest in (False, True):
                for body in ('small', 'large', 'raises'):
                    out.append(dict(base, file_perms=perms, umask=umask, dest_present=dest, body=body, reuse=True))
    return out


def extra_configs():
    """Argument shapes and initial states beyond the flag product (single-deviation pass in the quick tier)."""
    out = []
    base = {'overwrite': True, 'overwrite_part': False, 'rm_part_on_exc': True, 'text_mode': False, 'file_perms': None,
            'umask': 0o022, 'dest_present': True, 'part_present': False, 'body': 'small', 'extra': True}
    # part_file='name': the part file is the one the caller named; an unrelated file that carries the default part-file
    # name is no part file of this save
    for overwrite in (True, False):
        for rm_part in (True, False):
            for part, overwrite_part in ((False, False), (True, False), (True, True)):
                for dest in (False, True):
                    for body in ('small', 'large', 'raises'):
                        for decoy in (True, False):
                            out.append(dict(base, part_name='custom.tmp', decoy=decoy, overwrite=overwrite,
                                            rm_part_on_exc=rm_part, part_present=part, overwrite_part=overwrite_part,
                                            dest_present=dest, body=body))
    for name in ('.dest.txt.swp', 'dest.txt.part.part'):
        for body in ('small', 'large', 'raises'):
            for text in (False, True):
                out.append(dict(base, part_name=name, decoy=True, body=body, text_mode=text))
    # destination names at the file system's name limit (255): the default part name does not fit, so the save is refused
    # by the operating system (or succeeds, for names that leave room) - either way the destination is never the victim
    for name in ('a' * 250 + '.part', 'b' * 251, 'c' * 255, 'd' * 246 + '.part', 'e' * 250):
        for overwrite_part in (False, True):
            for body in ('small', 'raises'):
                for dest in (False, True):
                    for relative in (False, True):
                        out.append(dict(base, dest_name=name, overwrite_part=overwrite_part, body=body, dest_present=dest,
                                        relative=relative))
    # the part file in progress has a second hard link (snapshot tool, the body itself) while the save fails or is refused
    for body in ('small_linked', 'raises_linked'):
        for overwrite in (True, False):
            for dest in (False, True):
                for rm_part in (True, False):
                    for text in (False, True):
                        out.append(dict(base, body=body, overwrite=overwrite, dest_present=dest, rm_part_on_exc=rm_part,
                                        text_mode=text))
    # the destination is a symbolic link and is replaced (overwrite=True)
    for kind in ('symlink_dangling', 'symlink_to_file'):
        for perms in (None, 0o600):
            for umask in (0o022, 0):
                for body in ('small', 'large', 'raises'):
                    out.append(dict(base, dest_kind=kind, file_perms=perms, umask=umask, body=body))
    # the destination is a directory: the operating system itself reports the error at rename/link
    for overwrite in (True, False):
        for rm_part in (True, False):
            for perms in (None, 0o600):
                for body in ('small', 'raises'):
                    out.append(dict(base, dest_kind='directory', overwrite=overwrite, rm_part_on_exc=rm_part,
                                    file_perms=perms, body=body))
    # the old file has a second name: its content is the "previous content" under that name, too
    for body in ('small', 'large', 'raises'):
        for text in (False, True):
            out.append(dict(base, dest_hardlinked=True, body=body, text_mode=text))
    out.append(dict(base, dest_hardlinked=True, overwrite=False))
    # a pre-existing part file that is a dangling symbolic link
    for overwrite_part in (False, True):
        for rm_part in (True, False):
            for body in ('small', 'raises'):
                out.append(dict(base, part_present=True, part_kind='symlink_dangling', overwrite_part=overwrite_part,
                                rm_part_on_exc=rm_part, body=body))
    # destination path relative to the working directory
    for name in (None, 'custom.tmp'):
        for overwrite in (True, False):
            for dest in (False, True):
                for body in ('small', 'large', 'raises'):
                    out.append(dict(base, relative=True, part_name=name, overwrite=overwrite, dest_present=dest, body=body))
    if CHDIR_BODY:
        for overwrite in (True, False):
            for dest in (False, True):
                for body in ('small_chdir', 'raises_chdir'):
                    out.append(dict(base, relative=True, overwrite=overwrite, dest_present=dest, body=body))
    # the function form atomic_save(dest, **kwargs)
    for overwrite in (True, False):
        for dest in (False, True):
            for text in (False, True):
                for body in ('small', 'raises'):
                    out.append(dict(base, entry='atomic_save', overwrite=overwrite, dest_present=dest, text_mode=text,
                                    body=body))
    # buffering=: unbuffered (binary only), line-buffered (text only), a tiny buffer
    for buffering, text in ((0, False), (1, True), (16, False), (16, True)):
        for body in ('small', 'large', 'raises', 'large_raises'):
            for dest in (False, True):
                out.append(dict(base, buffering=buffering, text_mode=text, body=body, dest_present=dest))
    return out


class Scenario:
    def __init__(self, cfg, d):
        self.cfg, self.d = cfg, d
        self.dest_name = cfg.get('dest_name', 'dest.txt')
        self.dest = os.path.join(d, self.dest_name)
        self.part = os.path.join(d, cfg['part_name']) if cfg.get('part_name') else self.dest + '.part'
        self.own = (self.dest_name, os.path.basename(self.part), SNAP)
        self.dest_abs = self.dest
        self.plan = body_plan(cfg['body'])
        self.new = new_content(self.plan)
        self.body_raises = any(st[0] == 'raise' for st in self.plan)
        self.body_exc = BODY_EXC[next((st[1] if len(st) > 1 else 'BodyError') for st in self.plan if st[0] == 'raise')] \
            if self.body_raises else None
        self.other_created = False
        self.before = None

    def prepare(self):
        shutil.rmtree(self.d, ignore_errors=True)
        os.makedirs(self.d)
        old = os.umask(0)
        try:
            if any(st[0] in ('hardlink', 'chdir') for st in self.plan):
                os.mkdir(os.path.join(self.d, SNAP), 0o755)
            if self.cfg.get('decoy'):       # an unrelated file that carries the *default* part-file name
                with open(self.dest + '.part', 'wb') as f:
                    f.write(DECOY)
                os.chmod(self.dest + '.part', FOREIGN_MODE)
            if self.cfg.get('dest_kind') == 'directory':
                os.mkdir(self.dest, DIR_MODE)
                with open(os.path.join(self.dest, 'inside'), 'wb') as f:
                    f.write(OLD)
            elif self.cfg.get('dest_kind'):
                target = os.path.join(self.d, 'target-of-the-link')
                if self.cfg['dest_kind'] == 'symlink_to_file':
                    with open(target, 'wb') as f:
                        f.write(OLD)
                    os.chmod(target, OLD_MODE)
                os.symlink('target-of-the-link', self.dest)
            elif self.cfg['dest_present']:
                with open(self.dest, 'wb') as f:
                    f.write(OLD)
                os.chmod(self.dest, self.cfg.get('old_mode', OLD_MODE))
                if self.cfg.get('dest_hardlinked'):     # the old file has a second name: it must keep its content
                    os.link(self.dest, os.path.join(self.d, 'twin-of-dest'))
            if self.cfg['part_present'] and self.cfg.get('part_kind') == 'symlink_dangling':
                os.symlink('target-of-the-part-link', self.part)
            elif self.cfg['part_present']:
                with open(self.part, 'wb') as f:
                    f.write(FOREIGN)
                os.chmod(self.part, FOREIGN_MODE)
                if self.cfg.get('part_age'):
                    import time
                    t0 = time.time() - self.cfg['part_age']
                    os.utime(self.part, (t0, t0))
        finally:
            os.umask(old)
        self.other_created = False

    def other_process_creates_dest(self):
        old = os.umask(0)
        try:
            fd = os.open(self.dest, os.O_WRONLY | os.O_CREAT | os.O_EXCL, OTHER_MODE)
            os.write(fd, OTHER)
            os.close(fd)
        finally:
            os.umask(old)
        self.other_created = True

    def menu(self, ev):
        nm = ev['name']
        alts = []
        path = ev['args'][0] if ev.get('args') and isinstance(ev['args'][0], str) else ev.get('path')
        ens = list(MENU.get(nm, OTHER_CALLS if nm in envfaults.OSProxy.TRACED and nm not in NOT_FAILED else ()))
        if self.cfg.get('wide') and ens:
            ens += [en for en in WIDE if en not in ens]
        for en in ens:
            if nm == 'open' and not (len(ev['args']) > 1 and ev['args'][1] & os.O_CREAT):
                continue
            alts.append(('raise', en))
        # (a short write on an unbuffered raw file is reported to the body, which here ignores it: not offered)
        if nm == 'raw_write' and ev['len'] > 1 and self.cfg.get('buffering') != 0:
            alts.append(('short', max(1, ev['len'] // 2)))
        if nm != 'checkpoint' and nm != 'fdopen' and not self.other_created and not os.path.lexists(self.dest):
            alts.append(('pre', self.other_process_creates_dest, 'another process creates the destination'))
        return alts

    def run(self, env, set_umask=True):
        """set_umask=False: run under whatever umask the process has now (the retry after a failed save must see the
        process state that save left behind)."""
        from boltons import fileutils
        cfg = self.cfg
        proxy = envfaults.OSProxy(env)
        saved = fileutils.os
        fileutils.os = proxy
        if set_umask:
            prev = os.umask(cfg['umask'])
            if getattr(self, 'harness_umask', None) is None:
                self.harness_umask = prev       # restored by restore_umask() once the execution has been judged
        f = None
        cwd = None
        try:
            kw = {'text_mode': cfg['text_mode'], 'overwrite': cfg['overwrite'],
                  'overwrite_part': cfg['overwrite_part'], 'rm_part_on_exc': cfg['rm_part_on_exc']}
            if cfg['file_perms'] is not None:
                kw['file_perms'] = cfg['file_perms']
            if cfg.get('part_name'):
                kw['part_file'] = cfg['part_name']
            if cfg.get('buffering') is not None:
                kw['buffering'] = cfg['buffering']
            path = self.dest
            if cfg.get('relative'):         # a destination given relative to the working directory
                cwd = os.getcwd()
                os.chdir(self.d)
                self.dest_abs = os.path.join(os.getcwd(), self.dest_name)
                path = self.dest_name
            make = fileutils.atomic_save if cfg.get('entry') == 'atomic_save' else fileutils.AtomicSaver
            saver = make(path, **kw)
            if cfg.get('reuse'):
                # first save through the same object, undisturbed and unobserved; then the destination's mode changes
                env.closed = True
                try:
                    if cfg.get('manual'):
                        saver.setup()
                        saver.part_file.write('first save\n' if cfg['text_mode'] else b'first save\n')
                        saver.__exit__(None, None, None)
                    else:
                        with saver as f0:
                            f0.write('first save\n' if cfg['text_mode'] else b'first save\n')
                    os.chmod(self.dest, REUSE_MODE)
                except Exception as e:      # only possible on a retry after a failed run (e.g. a part file was left)
                    self.before = (stat_of(self.dest), stat_of(self.part))
                    self.replaced0 = followed_mode(self.dest)
                    self.others_before = others_of(self)
                    return e
                env.closed = False
            self.before = (stat_of(self.dest), stat_of(self.part))
            self.replaced0 = followed_mode(self.dest)
            self.others_before = others_of(self)
            try:
                if cfg.get('manual'):
                    import sys as _sys
                    saver.setup()
                    f = saver.part_file
                    try:
                        for st in self.plan:
                            if st[0] == 'write':
                                f.write(st[1] if cfg['text_mode'] else st[1].encode('utf-8'))
                            elif st[0] == 'raise':
                                raise self.body_exc('body failed')
                    except BaseException:
                        if not saver.__exit__(*_sys.exc_info()):
                            raise
                    else:
                        saver.__exit__(None, None, None)
                    return None
                with saver as f:
                    for st in self.plan:
                        if st[0] == 'write':
                            f.write(st[1] if cfg['text_mode'] else st[1].encode('utf-8'))
                        elif st[0] == 'close':
                            f.close()
                        elif st[0] == 'chdir':
                            os.chdir(os.path.join(self.d, SNAP))
                        elif st[0] == 'hardlink':
                            f.flush()
                            snap = os.path.join(self.d, SNAP, 'link-to-part')
                            if os.path.lexists(snap):       # (the retry of a failed save takes a new snapshot)
                                os.unlink(snap)
                            os.link(self.part, snap)
                        elif st[0] == 'raise':
                            raise self.body_exc('body failed')
                return None
            except envfaults.Crash:
                raise
            except BaseException as e:      # noqa - SystemExit / KeyboardInterrupt bodies are part of the alphabet
                return e
        finally:
            fileutils.os = saved
            env.closed = True
            if cwd is not None:
                os.chdir(cwd)
            try:
                if f is not None and not f.closed:
                    f.close()      # harness hygiene only (fd leak), after the observation point
            except Exception:
                pass


def restore_umask(sc):
    if getattr(sc, 'harness_umask', None) is not None:
        os.umask(sc.harness_umask)
        sc.harness_umask = None


def others_of(sc):
    return sorted((n, stat_of(os.path.join(sc.d, n))) for n in os.listdir(sc.d) if n not in sc.own)


def followed_mode(path):
    """Permission bits of the file a path leads to (None: nothing there, or a dangling link)."""
    try:
        return stat.S_IMODE(os.stat(path).st_mode)
    except OSError:
        return None


def stat_of(path):
    try:
        st = os.lstat(path)
    except OSError:
        return None
    if stat.S_ISDIR(st.st_mode):
        return (st.st_mode & 0o7777, b'directory: ' + ' '.join(sorted(os.listdir(path))).encode(), st.st_ino)
    if stat.S_ISLNK(st.st_mode):
        return (st.st_mode & 0o7777, b'symlink -> ' + os.readlink(path).encode(), st.st_ino)
    with open(path, 'rb') as f:
        data = f.read()
    return (st.st_mode & 0o7777, data, st.st_ino)


def judge(sc, env, exc, before, retry=True):
    """Returns list of (what, expected, observed)."""
    cfg = sc.cfg
    out = []
    dest0, part0 = before
    is_dir = cfg.get('dest_kind') == 'directory'    # a directory cannot be replaced by a file: the OS refuses
    umask_default = 0o666 & ~cfg['umask']
    # "the permissions of the file it replaces": a symbolic link has no permissions of its own (its mode bits are a
    # constant placeholder), the file that was reachable under the destination's name is the one the link leads to
    replaced0 = sc.replaced0
    dest1, part1 = stat_of(sc.dest), stat_of(sc.part)
    fired = [a for _, a in env.fired]
    log = env.log
    # did a publishing call succeed?
    published = any(ev['name'] in ('rename', 'replace', 'link') and not str(ev.get('result', '')).startswith('errno')
                    and len(ev['args']) > 1 and ev['args'][1] in (sc.dest, sc.dest_abs) for ev in log)
    raised_faults = [a for a in fired if a[0] == 'raise']
    # the part file's name does not fit the file system's limit: the operating system itself (no injected fault) reports
    # the error when the part file is created, before the body runs, and will do so again on every retry
    os_refuses = len(os.fsencode(os.path.basename(sc.part))) > 255
    other = sc.other_created
    refused_expected = (not cfg['overwrite'] and (dest0 is not None or other)) or \
                       (cfg['part_present'] and not cfg['overwrite_part']) or is_dir
    # expected destination when the save did not complete
    if other:
        keep = (OTHER_MODE, OTHER)
    elif dest0 is not None:
        keep = (dest0[0], dest0[1])
    else:
        keep = None
    if exc is None:
        # completed: new content, right permissions, no part file
        if sc.body_raises:
            out.append(('body exception swallowed', '%s propagates' % sc.body_exc.__name__, 'no exception'))
        if refused_expected and not (other and cfg['overwrite']):
            out.append(('refusal missing', 'OSError (overwrite disabled / part file exists)', 'save completed'))
        # "the operating system reports an error at any step (creating or chmod-ing the part file, write, flush, fsync,
        # close, link/rename) ... the caller receives an exception (never a silent failure)"
        swallowed = [(env.points[i][0], errno.errorcode.get(a[1], a[1])) for i, a in env.fired
                     if a[0] == 'raise' and env.points[i][0] in LISTED_STEPS]
        if swallowed:
            out.append(('OS error at a listed step swallowed: the save completed without an exception',
                        'an exception', swallowed))
        if dest1 is None or dest1[1] != sc.new:
            out.append(('silent failure: no exception but destination is not the new content', sc.new[:40],
                        None if dest1 is None else dest1[1][:40]))
        else:
            if cfg['file_perms'] is not None:
                want = {cfg['file_perms']}
            elif any(a[0] == 'raise' and ev_name == 'stat' for (ev_name, a) in
                     [(env.points[i][0], a) for i, a in env.fired]):
                want = {umask_default, replaced0 if replaced0 is not None else umask_default}
            elif other:
                want = {OTHER_MODE, 0o666 & ~cfg['umask']}
            elif replaced0 is not None:
                want = {replaced0}          # the mode of the file it replaces
            else:
                want = {0o666 & ~cfg['umask']}
            if dest1[0] not in want:
                out.append(('permissions of the completed file', sorted(oct(w) for w in want), oct(dest1[0])))
        if part1 is not None:
            out.append(('part file left after a completed save', None, part1[1][:30]))
        now = others_of(sc)
        if [x[0] for x in now] != [x[0] for x in sc.others_before]:
            out.append(('other files of the directory changed', [x[0] for x in sc.others_before], [x[0] for x in now]))
        return out
    # the caller saw an exception
    closes = any(st[0] == 'close' for st in sc.plan)
    if sc.body_raises and not fired and not refused_expected and not os_refuses and type(exc) is not sc.body_exc and not closes:
        out.append(('body exception replaced', sc.body_exc.__name__, type(exc).__name__))
    if published:
        # the fault hit after publication (e.g. unlink(src) after link): destination legitimately holds the new content
        if dest1 is None or dest1[1] != sc.new:
            out.append(('destination after a fault that followed publication', sc.new[:40],
                        None if dest1 is None else dest1[1][:40]))
    else:
        got = None if dest1 is None else (dest1[0], dest1[1])
        if got != keep:
            out.append(('destination changed by a save that did not complete',
                        None if keep is None else (oct(keep[0]), keep[1][:40]),
                        None if got is None else (oct(got[0]), got[1][:40])))
    # pre-existing part file must be untouched unless overwrite_part
    if cfg['part_present'] and not cfg['overwrite_part']:
        if part1 is None or (part1[0], part1[1], part1[2]) != (part0[0], part0[1], part0[2]):
            out.append(('pre-existing part file reused or overwritten', (oct(part0[0]), part0[1]),
                        None if part1 is None else (oct(part1[0]), part1[1][:30])))
    # cleanup
    unlink_failed = any(env.points[i][0] in ('unlink', 'remove') and a[0] == 'raise' for i, a in env.fired)
    mine = part1 is not None and not (part0 is not None and part1[1] == part0[1] and part1[0] == part0[0])
    if cfg['rm_part_on_exc'] and mine and not unlink_failed and not published:
        out.append(('part file left behind after a failed save', 'no part file', part1[1][:30]))
    if cfg['rm_part_on_exc'] and mine and published and not unlink_failed:
        out.append(('part file left behind after publication', 'no part file', part1[1][:30]))
    # nothing but the destination and the part file may appear or disappear in the directory
    now = others_of(sc)
    if [x[0] for x in now] != [x[0] for x in sc.others_before]:
        out.append(('other files of the directory changed', [x[0] for x in sc.others_before], [x[0] for x in now]))
    elif now != sc.others_before:
        # ... nor may a save that did not complete alter them (the old file seen through a symbolic link or under its
        # second hard-linked name, an unrelated file that carries the default part-file name)
        diff = [x[0] for x, y in zip(sc.others_before, now) if x != y]
        out.append(('other files of the directory altered by a save that did not complete', 'unchanged', diff))
    # the process umask is what "the umask default" of later saves refers to: a save must leave it as it found it
    cur = os.umask(0)
    os.umask(cur)
    if cur != cfg['umask']:
        out.append(('process umask changed by the save', oct(cfg['umask']), oct(cur)))
    # retry
    if retry and cfg['rm_part_on_exc'] and not unlink_failed and not published:
        blocked = (not cfg['overwrite'] and os.path.lexists(sc.dest)) or \
                  (part0 is not None and not cfg['overwrite_part']) or is_dir or os_refuses
        if not blocked and not sc.body_raises:
            env2 = envfaults.Env()
            dprev = followed_mode(sc.dest)
            exc2 = sc.run(env2, set_umask=False)
            d2 = stat_of(sc.dest)
            if exc2 is not None or d2 is None or d2[1] != sc.new:
                out.append(('immediate retry fails', 'retry succeeds', repr(exc2)))
            elif not cfg.get('reuse'):
                want2 = {cfg['file_perms']} if cfg['file_perms'] is not None else \
                    {dprev} if dprev is not None else {0o666 & ~cfg['umask']}
                if d2[0] not in want2:
                    out.append(('permissions after the retry of a failed save', sorted(oct(w) for w in want2), oct(d2[0])))
    return out


def fault_label(env):
    parts = []
    for i, a in env.fired:
        nm = env.points[i][0]
        if a[0] == 'raise':
            parts.append('%s:%s' % (nm, errno.errorcode.get(a[1], a[1])))
        elif a[0] == 'short':
            parts.append('%s:short' % nm)
        else:
            parts.append('before %s:dest appears' % nm)
    return parts


def phase_of(env, i):
    """Which step of the save the i-th point belongs to (for signatures)."""
    nm = env.points[i][0]
    names = [p[0] for p in env.points[:i + 1]]
    if nm in ('raw_write', 'raw_close'):
        return nm + ('(during exit)' if 'fsync' in names or nm == 'raw_close' else '')
    return nm


def run_config(task):
    from mc.inputs import Tally
    cfg, base, bound = task
    t = Tally()
    d = os.path.join(base, 'c%d-b%d' % (abs(hash(json.dumps(cfg, sort_keys=True))), bound))
    sc = Scenario(cfg, d)
    state = {}

    def run(env):
        sc.prepare()
        exc = sc.run(env)
        state['before'] = sc.before
        return exc

    def on_exec(env, exc):
        try:
            judge_exec(env, exc)
        finally:
            restore_umask(sc)

    def judge_exec(env, exc):
        faults = fault_label(env)
        t.count(nontrivial=bool(env.fired), sample={'config': cfg, 'faults': faults,
                                                    'exception': type(exc).__name__ if exc else None})
        for what, exp, obs in judge(sc, env, exc, state['before']):
            kinds = sorted({phase_of(env, i) + ':' + (a[0] if a[0] != 'raise' else 'error') for i, a in env.fired}) or ['no fault']
            sig = 'C05|fault:%s|%s' % ('+'.join(kinds), what)
            t.bad(sig, {'config': cfg, 'script': list(env.choices), 'faults': faults}, exp, obs)

    st = envfaults.explore(run, sc.menu, bound, on_exec)
    t.add('executions', st['executions'])
    t.add('points', st['points'])
    for k, v in st['by_deviations'].items():
        t.add('deviations_%d' % k, v)
    shutil.rmtree(d, ignore_errors=True)
    return t


def run(ctx):
    from mc import inputs
    base = core.scratch_dir('c05')
    try:
        cfgs = configs(ctx.tier)
        extra = extra_configs()
        # the umask only matters for the final mode: deeper deviation bounds use the default umask
        core_cfg = [c for c in cfgs if c['umask'] == 0o022 and not c['text_mode']]
        # the single-fault pass with every errno of WIDE at every call: the configurations that differ only in umask /
        # requested mode share their error paths, so the wide pass uses the default umask
        wide_cfg = [dict(c, wide=True) for c in cfgs if c['umask'] == 0o022 and c['file_perms'] != 0o664]
        if ctx.quick():
            tasks = [(c, base, 1) for c in cfgs] + [(c, base, 2) for c in core_cfg if c['file_perms'] != 0o600] \
                + [(c, base, 1) for c in wide_cfg] + [(c, base, 1) for c in extra]
        else:
            tasks = [(c, base, 2) for c in cfgs] + [(c, base, 3) for c in core_cfg] \
                + [(dict(c, wide=True), base, 1) for c in cfgs] + [(c, base, 2) for c in extra] \
                + [(dict(c, wide=True), base, 1) for c in extra]
        ctx.rng.shuffle(tasks)
        total = inputs.run_shards(ctx, run_config, tasks, part='fault injection', rule=None)
        cov = ctx.coverage
        cov['configurations'] = len(cfgs)
        cov['extra_configurations'] = len(extra)
        cov['rule'] = ('one evaluation = one complete execution of a save under one sequence of environment answers; '
                       'non-trivial = at least one deviation (injected errno, short write, or another process creating '
                       'the destination) actually fired')
        cov['bounds'] = {'deviations': '1 on all configurations, 2 on the default-umask binary ones' if ctx.quick() else '2 on all configurations, 3 on the default-umask binary ones', 'menu': {k: [errno.errorcode[e] for e in v]
                                                                          for k, v in MENU.items()},
                         'errnos of the wide single-fault pass (each at every call)': [errno.errorcode[e] for e in WIDE],
                         'other traced calls': [errno.errorcode[e] for e in OTHER_CALLS]}
        cov['bounds']['extra configurations (1 deviation quick, 2 + wide pass thorough)'] = (
            "part_file='name' (3 names, with/without an unrelated file under the default part name); part file hard-linked "
            'by the body before the save fails / is refused; destination = symbolic link (dangling, to a file) replaced with '
            'overwrite=True; destination = directory; destination with a second hard link; pre-existing part file = '
            'dangling symbolic link; destination path relative to the working directory; atomic_save() function form; '
            'buffering 0 / 1 / 16')
        cov['exhaustive'] = True
        ctx.assumptions += ['faults are injected only at the steps the statement lists (fdopen/fcntl excluded)',
                            'a fault after a successful publishing call counts as a completed save',
                            'no-part-left is not demanded when the injector failed the unlink that would remove it',
                            '"the permissions of the file it replaces" for a destination that is a symbolic link = those '
                            'of the file the link leads to (a link has no permission bits of its own); a dangling link '
                            'replaces no file: umask default',
                            'a save that did not complete must leave every other entry of the directory as it was (name, '
                            'mode, content, inode); after a completed save only the set of names is compared']
    finally:
        shutil.rmtree(base, ignore_errors=True)


def replay(ctx, data):
    base = core.scratch_dir('c05r')
    try:
        case = data['case']
        sc = Scenario(case['config'], os.path.join(base, 'r'))
        sc.prepare()
        env = envfaults.Env(case['script'], sc.menu)
        exc = sc.run(env)
        try:
            return ['%s (faults %s): expected %r observed %r' % (w, fault_label(env), e, o)
                    for w, e, o in judge(sc, env, exc, sc.before)]
        finally:
            restore_umask(sc)
    finally:
        shutil.rmtree(base, ignore_errors=True)

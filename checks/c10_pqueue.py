"""C10 - HeapPriorityQueue / SortedPriorityQueue: highest priority first, FIFO among equals, observationally identical.

Engine E1 (mc.histories), product search: one breadth-first search whose state is the triple
(real HeapPriorityQueue, real SortedPriorityQueue, reference model) driven in lock step.  Every transition is executed
on both real queues and compared with the model *and* with each other.

  alphabet   tasks {a,b,c,d} (hashable objects that support == and hash() only - "arbitrary hashable tasks" need not be
             orderable), priorities {None, 0, 1, -1, 1.5} (None and 0 collide on the same effective priority);
             ops add(t,p), add(t) [priority omitted], remove(t) (present and absent), pop(), pop(default),
             pop(None), peek(), peek(default), peek(None), len
  configs    listutils.BarrelList._size_factor in {native, 1, 2} (class-attribute seam, restored afterwards).  With
             factor 1 the sorted backend splits into sub-lists at the third entry, so every multi-sub-list path of
             insert/pop/_balance_list lies inside the depth bound.  With factor 2 the first split needs seven backend
             entries, so that configuration is searched from pre-loaded six-entry start states as well.
  widened    five further searches (factor 1, three tasks, smaller read menu or smaller priority set) widen the input
  classes    classes instead of the depth:
             * numeric priorities of other types - Decimal, Fraction, bool, +-inf, a large int - all exactly
               representable as floats, tying with each other three ways (0.5) / with 1 / with 0 and None;
             * priorities that HAVE no effective priority: ints float() cannot take (+-10**400).  The statement does
               not say what such an add does; the check accepts an exception of any class (both queues the same) and
               then demands that nothing changed (a task leaves the queue only by remove / pop: len, order, backends
               as before - "after an exception" step); if both queues accept it, that branch is not explored;
             * a user priority_key that validates (raises ValueError for negative priorities) and is otherwise the
               default key: same rule for the rejected priorities, same order for the accepted ones;
             * tasks that are falsy; tasks that reach the queue as equal but never identical objects (a fresh tuple per
               call: add, re-add, remove and default all see different objects); the object None as a task (with
               pop(None) / peek(None), whose default is then identical to a task).
  bound      tombstones make the state space infinite -> depth-bounded; exhaustive for every history up to the depth
  canon      per queue the backing storage in storage order as (priority, rank of insertion counter, task | tombstone)
             plus the sub-list boundaries of the BarrelList; tasks are renamed by first appearance in that traversal
  oracles    state oracle  = return value / exception class of the operation on both queues vs the model and vs each
                             other, len(), and the backends' own invariants (sorted across sub-list boundaries, heap
                             property, entry map == live entries, counter monotone): a misplaced entry is attributed to
                             the add that misplaced it.  A failing transition is not expanded.
             read oracle   = black-box drain: pop() until IndexError on both queues must deliver exactly the model's
                             order (highest effective priority first, earliest (re-)insertion among equals), len()
                             counting down, then default / IndexError on the empty queue.
  supplement native-scale directed histories (tens of thousands of entries), NOT exhaustive, reported separately
             (coverage.native_scale_supplement); quick runs the 40 000-task ones, thorough adds 80 000 and factor 8.
             "deadrun" histories: a burst of k tasks is removed / re-prioritised before anything is consumed (one run
             of k consecutive dead entries at the head or behind one live task) and the first read is a bare pop /
             peek / pop(default) / peek(default); k straddles 0, powers of two, the interpreter's recursion limit and
             the first sub-list split (a cost per dead entry - stack frames, quadratic culling - shows up there).
             "lives" histories: the same queue object lives several lives - burst of k tasks + one urgent task, the
             burst is cancelled (or re-prioritised, then cancelled), the last live task leaves by pop / remove /
             pop(default) so that the queue is empty (len 0) on top of up to 2k dead entries, and WITHOUT any read in
             between the next life re-adds the same tasks at the same priorities; the last life is a handful of adds
             with len() after each, peek, pop, popped to empty.  Same k as the dead runs (a size-triggered clean-up of
             an emptied queue has its threshold somewhere).  After every life the next insertion counter must exceed
             every counter left in the backend.
             "numeric-types" (thousands of Decimal / Fraction / bool / float / int / None priorities with ties across
             types) and "rejected-readds" (churn in which every third step re-prioritises a queued task with an int
             float() cannot take: if that raises, the task keeps its place).
  not        priority keys that change the order or treat None specially (what "highest" / an omitted priority means
  explored   there is not stated), NaN, ints that float() rounds (ties by effective or by given priority?), non-numeric
             priorities float() happens to take ('7'), tasks that are == across types (1, 1.0, True), unhashable tasks,
             subclasses with their own backend, copying / pickling a queue, concurrent use.
  hangs      every step runs under a CPU-time budget (ITIMER_VIRTUAL); a step that exceeds it is a violation
             (`does-not-terminate`), the worker skips the rest of its share and the run stops after that search.
"""
import copy
import os
import signal
import subprocess
import sys
from decimal import Decimal
from fractions import Fraction

from mc import core, histories

PROPERTY = 'C10'
LEVEL = 'model_checking'

TASKS = ('a', 'b', 'c', 'd')
PRIOS = (None, 0, 1, -1, 1.5)
OP_CPU_BUDGET_S = 3.0          # CPU seconds one step (replay + operation + inspection + drain, normally < 1 ms) may take
DEFAULT = '<default>'          # the object handed in as `default`; never a task

# Numeric priorities beyond int / float literals.  In histories (which must be JSON-able) they appear as tokens; every use
# builds a fresh object.  All values that have an effective priority are exactly representable as a float, so "highest
# effective priority" and "highest priority value" coincide and ties are unambiguous (0.5 three ways, 1 == True,
# 0 == False == None).  'huge' / '-huge' are perfectly good ints that have NO effective priority: float() of them raises
# OverflowError (the statement's effective priority, a float, does not exist) - an add with such a priority is a fault step.
PRIO_TOKENS = {
    'D:0.5': lambda: Decimal('0.5'), 'D:-1.5': lambda: Decimal('-1.5'), 'F:1/2': lambda: Fraction(1, 2),
    'B:True': lambda: True, 'B:False': lambda: False, 'inf': lambda: float('inf'), '-inf': lambda: float('-inf'),
    'I:2**62': lambda: 2 ** 62, 'huge': lambda: 10 ** 400, '-huge': lambda: -10 ** 400,
}
NUMERIC_PRIOS = (None, 1, 'D:0.5', 'F:1/2', 'D:-1.5', 'B:True', 'B:False', 'inf', '-inf', 'I:2**62', 'huge', '-huge')
KEYED_PRIOS = (None, 0, 1, -1, 'D:0.5', 'D:-1.5', 'huge')


def prio(p):
    return PRIO_TOKENS[p]() if isinstance(p, str) else p


def nonneg_key(p):
    """A user priority_key that validates its input and is otherwise the default key (so no question arises about
    what "highest" means under a custom key, nor about what a key receives for an omitted priority)."""
    if p is None:
        return 0.0
    if p < 0:
        raise ValueError('negative priorities are not allowed')
    return -float(p)


KEYS = {'nonneg': nonneg_key}


class Task:
    """A hashable task that supports == and hash() only (identity semantics, like any plain object).  Ordering it
    raises TypeError - the queues must never need to order tasks, the insertion counter breaks every tie."""
    __slots__ = ('name',)

    def __init__(self, name):
        self.name = name

    def __repr__(self):
        return 'Task(%s)' % self.name


class FalsyTask(Task):
    """Same, and falsy (like an empty tuple or 0): `if task`, `task or default` must not be used to mean 'no task'."""
    __slots__ = ()

    def __bool__(self):
        return False


NONE_AS = [None]               # name of the task that IS the object None in the queues built last (kind none-task)


def is_task(x):
    return (isinstance(x, Task) or (type(x) is tuple and len(x) == 2 and x[0] == 'task') or
            (x is None and NONE_AS[0] is not None))


def task_name(x):
    return NONE_AS[0] if x is None else x.name if isinstance(x, Task) else x[1]


class TaskTable:
    """name -> the task object handed to the queues.
       objects       one Task per name (identity semantics)
       falsy         one FalsyTask per name
       equal-tuples  a FRESH tuple ('task', name) on every access: the queues get equal, never identical, objects
                     for add / re-add / remove / default, so tasks must be matched by ==/hash, not by identity
       none-task     the first task is the object None (hashable, hence a task; also everybody's favourite sentinel),
                     the others are Task objects; pop(None) / peek(None) then pass a default identical to a task.
                     Tasks are not interchangeable here, so canonical states keep the task names."""

    def __init__(self, kind):
        self.kind = kind
        self.objs = {n: (FalsyTask(n) if kind == 'falsy' else Task(n)) for n in TASKS}
        if kind == 'none-task':
            self.objs[TASKS[0]] = None
        NONE_AS[0] = TASKS[0] if kind == 'none-task' else None

    def __getitem__(self, n):
        if self.kind == 'equal-tuples':
            return tuple(['task', n])
        return self.objs[n]


TASK_KINDS = ('objects', 'falsy', 'equal-tuples', 'none-task')


class Hang(BaseException):
    pass


def _on_timer(signum, frame):
    raise Hang()


def install_guard():
    signal.signal(signal.SIGVTALRM, _on_timer)


# ----------------------------------------------------------------------------------------------------
# reference model

class Model:
    """Live tasks in order of (re-)insertion: [name, effective priority]."""

    def __init__(self, key=None):
        self.live = []
        self.key = key

    def effective(self, p):
        """The effective priority (a float, larger = earlier) or None when the priority has none: float() of it
        raises (default key) or the caller's own priority_key rejects it."""
        v = prio(p)
        try:
            if self.key is None:
                return float(0 if v is None else v)
            return 0.0 - KEYS[self.key](v)
        except Exception:
            return None

    def find(self, t):
        for i, e in enumerate(self.live):
            if e[0] == t:
                return i
        return -1

    def order(self):
        """Names in the order the statement demands: highest effective priority first, earliest arrival among
        equals (sorted() is stable and self.live is in arrival order)."""
        return [e[0] for e in sorted(self.live, key=lambda e: -e[1])]

    def apply(self, op):
        """-> ('ok', value) | ('exc', name) where the statement fixes the outcome; ('noraise',) where it only implies
        success (what add/remove return is not stated); ('open',) where it says nothing (removing an absent task);
        ('rejected',) for an add whose priority has no effective priority: whether it raises is not stated, but a
        call that raises has neither removed nor popped anything, so the live tasks stay as they were."""
        name = op[0]
        if name in ('add', 'add1'):
            eff = self.effective(op[2] if name == 'add' else None)
            if eff is None:
                return ('rejected',)
            i = self.find(op[1])
            if i >= 0:
                del self.live[i]
            self.live.append([op[1], eff])
            return ('noraise',)
        if name == 'remove':
            i = self.find(op[1])
            if i < 0:
                return ('open',)          # the statement does not say what removing an absent task does
            del self.live[i]
            return ('noraise',)
        if name == 'len':
            return ('ok', len(self.live))
        dflt = {'pop': 0, 'peek': 0, 'popd': 1, 'peekd': 1, 'popn': 2, 'peekn': 2, 'popt': 3, 'peekt': 3}[name]
        if not self.live:
            if dflt == 3:
                return ('ok', op[1])          # the caller's default happens to be one of the task objects
            return ('exc', 'IndexError') if dflt == 0 else ('ok', DEFAULT if dflt == 1 else None)
        best = self.order()[0]
        if name.startswith('pop'):
            del self.live[self.find(best)]
        return ('ok', best)


def shape(op, model):
    """Operation shape used in signatures (never concrete values)."""
    name = op[0]
    if name in ('add', 'add1'):
        rej = '(rejected-priority)' if model.effective(op[2] if name == 'add' else None) is None else ''
        return ('re-add' if model.find(op[1]) >= 0 else 'add') + rej
    if name == 'remove':
        return 'remove' if model.find(op[1]) >= 0 else 'remove(absent)'
    return {'pop': 'pop', 'popd': 'pop(default)', 'popn': 'pop(default)', 'peek': 'peek', 'peekd': 'peek(default)',
            'peekn': 'peek(default)', 'len': 'len', 'popt': 'pop(default=a task)', 'peekt': 'peek(default=a task)'}[name]


# ----------------------------------------------------------------------------------------------------
# implementation side

def show(v):
    if is_task(v):
        return task_name(v)
    if v is DEFAULT:
        return DEFAULT
    if v is None or isinstance(v, int):
        return v
    return 'unexpected value ' + repr(v)


def impl_apply(q, op, T):
    name = op[0]
    try:
        if name == 'add':
            return ('ok', show(q.add(T[op[1]], prio(op[2]))))
        if name == 'add1':
            return ('ok', show(q.add(T[op[1]])))
        if name == 'remove':
            return ('ok', show(q.remove(T[op[1]])))
        if name == 'pop':
            return ('ok', show(q.pop()))
        if name == 'popd':
            return ('ok', show(q.pop(DEFAULT)))
        if name == 'popn':
            return ('ok', show(q.pop(None)))
        if name == 'peek':
            return ('ok', show(q.peek()))
        if name == 'peekd':
            return ('ok', show(q.peek(DEFAULT)))
        if name == 'peekn':
            return ('ok', show(q.peek(default=None)))
        if name == 'popt':
            return ('ok', show(q.pop(T[op[1]])))
        if name == 'peekt':
            return ('ok', show(q.peek(T[op[1]])))
        if name == 'len':
            return ('ok', len(q))
    except Exception as e:
        return ('exc', type(e).__name__)
    raise AssertionError(op)


def entries_of(q, which):
    """Backend storage -> (list of sub-lists of raw entries).  The heap is one 'sub-list'."""
    pq = q._pq
    if which == 'sorted' and hasattr(pq, 'lists'):
        return [list(sub) for sub in pq.lists]
    return [list(pq)]


def ranked(subs):
    """[(priority, rank of counter, Task | None)] per sub-list; None = tombstone."""
    flat = [e for sub in subs for e in sub]
    ranks = {c: i for i, c in enumerate(sorted({e[1] for e in flat}))}
    return [[(e[0], ranks[e[1]], e[2] if is_task(e[2]) else None) for e in sub] for sub in subs]


def inspect(q, which, model):
    """White-box invariants of one queue.  -> (what, expected, observed) of the first broken one, or None."""
    try:
        subs = entries_of(q, which)
        flat = [e for sub in subs for e in sub]
        for e in flat:
            if not (isinstance(e, list) and len(e) == 3):
                return ('entry-shape', '[priority, counter, task]', repr(e))
        keys = [(e[0], e[1]) for e in flat]
        if which == 'sorted':
            if not subs:
                return ('backend-sublists', 'at least one sub-list', [])
            for i in range(1, len(keys)):
                if not keys[i - 1] < keys[i]:
                    return ('backend-order', 'entries ascending by (effective priority, counter) across sub-lists',
                            [[(e[0], e[1], show(e[2]) if is_task(e[2]) else 'REMOVED') for e in sub]
                             for sub in subs])
        else:
            for i in range(1, len(keys)):
                if not keys[(i - 1) // 2] < keys[i]:
                    return ('heap-property', 'parent < child by (effective priority, counter)',
                            [(e[0], e[1], show(e[2]) if is_task(e[2]) else 'REMOVED') for e in flat])
        live = sorted((e for e in flat if is_task(e[2])), key=lambda e: (e[0], e[1]))
        want = model.order()
        got = [task_name(e[2]) for e in live]
        if got != want:
            return ('live-entries', want, got)
        emap = q._entry_map
        if sorted(task_name(t) if is_task(t) else repr(t) for t in emap) != sorted(want):
            return ('entry-map', sorted(want), sorted(task_name(t) if is_task(t) else repr(t) for t in emap))
        for e in live:
            if emap[e[2]] is not e:
                return ('entry-map', 'maps each live task to its backend entry', 'stale entry for ' + task_name(e[2]))
        cnt = getattr(q, '_counter', None)
        if cnt is not None and flat:
            try:
                nxt = next(copy.copy(cnt))
            except Exception:
                nxt = None
            if nxt is not None and not nxt > max(e[1] for e in flat):
                return ('counter-not-monotone', '> %r' % max(e[1] for e in flat), nxt)
    except Exception as e:
        return ('internals-unreadable', 'anchors _pq / _entry_map / _counter of the property', type(e).__name__)
    return None


def canon(hq, sq):
    """Canonical key of the product state (implementation side only), as a compact exact string: per queue the
    backing storage in storage order, sub-lists separated by '/', entries 'priority,counter rank,task label'
    ('~' = tombstone); tasks are labelled by first appearance; then the labels of the entry-map keys."""
    names = {}
    if NONE_AS[0] is not None:
        names = {n: n for n in TASKS}          # no renaming: None and the Task objects are not interchangeable
    out = []
    for which, q in (('heap', hq), ('sorted', sq)):
        out.append('/'.join(
            ' '.join('%r,%d,%s' % (p, r, '~' if t is None else names.setdefault(task_name(t), len(names)))
                     for p, r, t in sub)
            for sub in ranked(entries_of(q, which))))
    for q in (hq, sq):
        out.append(','.join(sorted(str(names.setdefault(task_name(t), len(names))) if is_task(t) else '?'
                                   for t in q._entry_map)))
    return '|'.join(out)


def drain_one(q, limit):
    """pop() until it raises (at most `limit` times), len() after every pop, then the emptied queue's answers."""
    seq, lens = [], []
    for _ in range(limit):
        try:
            t = q.pop()
        except Exception as e:
            seq.append(('exc', type(e).__name__))
            break
        seq.append(show(t))
        try:
            lens.append(len(q))
        except Exception as e:
            lens.append(type(e).__name__)
    after = [impl_apply(q, o, None) for o in (('popd',), ('peekd',), ('peek',), ('len',))]
    return seq, lens, after


AFTER_EMPTY = [('ok', DEFAULT), ('ok', DEFAULT), ('exc', 'IndexError'), ('ok', 0)]
DEFAULT_OPS = ('popd', 'popn', 'peekd', 'peekn', 'popt', 'peekt')


# ----------------------------------------------------------------------------------------------------

PRELOADS = {
    # six backend entries each (every add appends one entry; a re-add leaves a tombstone behind), chosen so that the
    # seventh entry splits the size-factor-2 BarrelList with tombstones / ties / distinct priorities in different places
    'equal6': (('add', 'a', 0), ('add', 'b', 0), ('add', 'c', 0), ('add', 'a', 0), ('add', 'b', 0), ('add', 'c', 0)),
    'rising6': (('add', 'a', -1), ('add', 'b', 0), ('add', 'a', 1), ('add', 'c', 1), ('add', 'b', 1.5),
                ('add', 'a', 1.5)),
    'falling6': (('add', 'a', 1.5), ('add', 'b', 1), ('add', 'a', 1), ('add', 'c', 0), ('add', 'b', -1),
                 ('add', 'a', -1)),
}


class Spec:
    def __init__(self, factor, starts=('empty',), tasks=TASKS, prios=PRIOS, key=None, task_kind='objects',
                 reads='full'):
        self.factor = factor                    # None = native
        self.starts = tuple(starts)
        self.tasks, self.prios = tuple(tasks), tuple(prios)
        self.key, self.task_kind, self.reads = key, task_kind, reads
        self.config = {'size_factor': 'native' if factor is None else factor, 'starts': list(self.starts),
                       'tasks': list(self.tasks), 'priorities': list(self.prios),
                       'priority_key': 'default' if key is None else key, 'task_kind': task_kind, 'reads': reads}
        self.menu = self._menu()

    def _menu(self):
        if self.reads == 'full':
            m = [('len',), ('peek',), ('peekd',), ('peekn',), ('pop',), ('popd',), ('popn',),
                 ('popt', self.tasks[0]), ('peekt', self.tasks[0])]     # a default that is identical to a queued task
        else:
            # len, a full drain and the emptied queue's answers are observed after every transition anyway
            m = [('peek',), ('pop',), ('popd',)]
            if self.reads == 'reduced+task-default':
                m += [('popt', self.tasks[0]), ('peekt', self.tasks[0])]
        for t in self.tasks:
            m.append(('add1', t))
            for p in self.prios:
                m.append(('add', t, p))
        for t in self.tasks:
            m.append(('remove', t))
        return m

    def initial(self):
        return [() if s == 'empty' else PRELOADS[s] for s in self.starts]

    def set_scale(self):
        from boltons import listutils
        listutils.BarrelList._size_factor = NATIVE[0] if self.factor is None else self.factor

    def build(self, hist):
        """Fresh real queues + model, history replayed on all three."""
        from boltons import queueutils
        self.set_scale()
        T = TaskTable(self.task_kind)
        kw = {} if self.key is None else {'priority_key': KEYS[self.key]}
        hq, sq, model = queueutils.HeapPriorityQueue(**kw), queueutils.SortedPriorityQueue(**kw), Model(self.key)
        for op in hist:
            impl_apply(hq, op, T)
            impl_apply(sq, op, T)
            model.apply(op)
        return hq, sq, model, T

    def root_key(self, hist):
        signal.setitimer(signal.ITIMER_VIRTUAL, OP_CPU_BUDGET_S)
        try:
            hq, sq, _, _ = self.build(hist)
            return canon(hq, sq)
        except Exception as e:
            # queues that cannot even be built / read: expand() reports it on the first transition
            return 'unbuildable:%s:%r' % (type(e).__name__, hist)
        finally:
            signal.setitimer(signal.ITIMER_VIRTUAL, 0)

    def case(self, hist, op=None):
        return {'config': self.config, 'history': [list(o) for o in hist] + ([list(op)] if op is not None else [])}

    def expand(self, hist):
        out = []
        for op in self.menu:
            V, key, label = self.step(hist, op)
            out.append((op, key, label, V))
        return out

    def step(self, hist, op):
        """Replay hist on fresh objects, apply op to both queues and the model, state oracle, then (if sound) the
        drain read oracle.  -> (violations, canonical key of the successor or None, coverage label).
        The whole step runs under one CPU-time budget; `where` records what was running when it expired."""
        V = []
        if HANGS[0]:
            # this process has already reported a non-terminating operation (the run fails); every further hang would
            # cost the full CPU budget again, so the rest of this worker's share is skipped, not executed
            return V, None, (op[0], 'skipped-after-hang')
        where = {'phase': 'replay', 'shape': op[0], 'key': None, 'label': (op[0], 'hang')}
        case = self.case(hist, op)
        signal.setitimer(signal.ITIMER_VIRTUAL, OP_CPU_BUDGET_S)
        try:
            try:
                return self._step(hist, op, V, case, where)
            finally:
                signal.setitimer(signal.ITIMER_VIRTUAL, 0)
        except Hang:
            HANGS[0] += 1
            ph = where['phase']
            if ph == 'replay':
                sig = 'C10|op:replay|does-not-terminate'
            elif ph.startswith('drain'):
                sig = 'C10|read:%s:does-not-terminate' % ph
            else:
                sig = 'C10|op:%s|%s:does-not-terminate' % (where['shape'], ph)
            V.append((sig, case, 'terminates', 'no result within %gs CPU' % OP_CPU_BUDGET_S, None, ()))
            return V, where['key'], where['label']

    def _step(self, hist, op, V, case, where):
        try:
            hq, sq, model, T = self.build(hist)
        except Exception as e:
            V.append(('C10|op:construct|raised', case, 'queues are built (priority_key=%s) and the history replays'
                      % self.config['priority_key'], type(e).__name__, None, ()))
            return V, None, ('construct', type(e).__name__)
        sh = where['shape'] = shape(op, model)
        empty_before = not model.live

        def bad(what, exp, obs, kind='op'):
            sig = 'C10|op:%s|%s' % (sh, what) if kind == 'op' else 'C10|read:%s' % what
            V.append((sig, case, exp, obs, None, ()))

        where['phase'] = 'heap'
        r_h = impl_apply(hq, op, T)
        where['phase'] = 'sorted'
        r_s = impl_apply(sq, op, T)
        r_m = model.apply(op)
        label = (sh, r_h[1] if r_h[0] == 'exc' else ('default' if op[0] in DEFAULT_OPS and empty_before else 'ok'))
        where['label'] = label
        ok = True
        for which, r in (('heap', r_h), ('sorted', r_s)):
            if r_m[0] in ('open', 'rejected'):
                pass
            elif r_m[0] == 'noraise':
                if r[0] != 'ok':
                    bad('%s:result' % which, 'no exception', r); ok = False
            elif r != r_m:
                bad('%s:result' % which, r_m, r); ok = False
        if r_m[0] in ('open', 'noraise', 'rejected'):
            # returned values are not part of the statement here; success / exception class must still be the same
            c_h, c_s = (r_h if r_h[0] == 'exc' else ('ok',)), (r_s if r_s[0] == 'exc' else ('ok',))
        else:
            c_h, c_s = r_h, r_s
        if c_h != c_s:
            bad('heap!=sorted:result', 'identical outcomes', {'heap': r_h, 'sorted': r_s}); ok = False
        if not ok:
            return V, None, label
        if r_m[0] == 'rejected' and r_h[0] == 'ok':
            # both queues accepted a priority that has no effective priority: where the task belongs is not stated
            label = where['label'] = (sh, 'accepted (not explored further)')
            return V, None, label
        for which, q in (('heap', hq), ('sorted', sq)):
            where['phase'] = which + ':len'
            n = impl_apply(q, ('len',), T)
            if n != ('ok', len(model.live)):
                bad('%s:len' % which, len(model.live), n); ok = False
                continue
            where['phase'] = which + ':inspection'
            broken = inspect(q, which, model)
            if broken is not None:
                bad('%s:%s' % (which, broken[0]), broken[1], broken[2]); ok = False
        if not ok:
            return V, None, label
        key = where['key'] = canon(hq, sq)
        # read oracle (destroys the objects, which are not needed any more): pop everything
        want = model.order()
        lens_want = list(range(len(want) - 1, -1, -1))
        got = {}
        for which, q in (('heap', hq), ('sorted', sq)):
            where['phase'] = 'drain|' + which
            seq, lens, after = drain_one(q, len(want) + len(hist) + 3)
            got[which] = seq
            expect = list(want) + [('exc', 'IndexError')]
            if seq != expect:
                bad('drain|%s:pop-order' % which, expect, seq, kind='read')
            elif lens != lens_want:
                bad('drain|%s:len-while-popping' % which, lens_want, lens, kind='read')
            elif after != AFTER_EMPTY:
                bad('drain|%s:emptied-queue' % which, AFTER_EMPTY, after, kind='read')
        if got['heap'] != got['sorted']:
            bad('drain|heap!=sorted:pop-order', 'identical', got, kind='read')
        return V, key, label


NATIVE = [None]
HANGS = [0]


# ----------------------------------------------------------------------------------------------------
# native-scale directed supplement (not exhaustive)

def _scenario_ops(kind, n):
    """Deterministic generator of (op, task index, priority) for a directed history over n distinct tasks."""
    if kind == 'ascending':
        for i in range(n):
            yield ('add', i, i)
    elif kind == 'descending':
        for i in range(n):
            yield ('add', i, n - i)
    elif kind == 'equal':
        for i in range(n):
            yield ('add', i, None if i % 2 else 0)
    elif kind == 'alternating':
        for i in range(n):
            yield ('add', i, (1.5, -1, 1, 0)[i % 4])
    elif kind == 'churn':
        # adds with few distinct priorities, every third step re-adds or removes an earlier task
        for i in range(n):
            yield ('add', i, i % 7)
            if i % 3 == 2:
                yield ('add', i // 2, (i // 2) % 7)            # re-add: same priority, new arrival position
            if i % 5 == 4:
                yield ('remove', i // 3, None)
    elif kind == 'purge':
        # many scattered removals (70 % of all entries, far more dead than live entries), then the rest is drained:
        # size-triggered clean-ups of dead entries must keep the priority order
        for i in range(n):
            yield ('add', i, (i * 37) % 101)
        for i in range(n):
            if i % 10 < 7:
                yield ('remove', i, None)
    elif kind == 'numeric-types':
        # priorities of every numeric type float() takes, all exactly representable (ties are unambiguous)
        for i in range(n):
            yield ('add', i, (Decimal(i % 7) / 2, Fraction(i % 5, 2), bool(i % 4 == 2), float(i % 3) - 0.5, i % 11 - 5,
                              None, Decimal('-1.5'), 2 ** 62 if i % 96 == 7 else -2 ** 62)[i % 8])
            if i % 3 == 2:
                yield ('add', i // 2, Fraction(i % 7, 2))      # re-add: ties with the Decimal halves above
    elif kind == 'rejected-readds':
        # fault steps: every third step re-prioritises a queued task (and now and then adds a new one) with an int
        # that float() cannot take; such an add has no effective priority to queue the task at - if it raises, the
        # task keeps its place (it was neither removed nor popped)
        for i in range(n):
            yield ('add', i, i % 7)
            if i % 3 == 2:
                yield ('addx', i // 2, 10 ** 400 if i % 2 else -10 ** 400)
            if i % 50 == 49:
                yield ('addx', n + 1, 10 ** 400)               # a task that is not queued
            if i % 5 == 4:
                yield ('remove', i // 3, None)
    elif kind.startswith('deadrun:'):
        yield from _deadrun_ops(kind, n)
    elif kind.startswith('lives:'):
        yield from _lives_ops(kind, n)
    else:
        raise AssertionError(kind)


DEADRUN_MODES = ('remove', 'demote', 'requeue', 'promote')
DEADRUN_HEADS = ('head', 'nohead', 'alldead')
DEADRUN_FIRSTS = ('pop', 'peek', 'popd', 'peekd')
READ_SHAPE = {'pop': 'pop', 'peek': 'peek', 'popd': 'pop(default)', 'peekd': 'peek(default)'}


def _deadrun_ops(kind, k):
    """'deadrun:<mode>:<head>:<first read>' - a burst of k equal-priority tasks arrives and is cancelled (mode remove) or
    re-prioritised (re-added lower / with the same priority / higher) before anything is consumed, which leaves ONE
    RUN OF k CONSECUTIVE DEAD ENTRIES in both backends: at the very head (nohead / alldead), or directly behind one
    live top task (head).  Two equal-priority survivors sit behind the run (not with alldead; with mode remove the
    queue is then empty although its backend holds k entries).  The reads that follow are part of the history and are
    NOT preceded by any other read: the first read has to step over the whole run (nohead / alldead) or the pop after
    it has (head).  Task indexes: burst 0..k-1, survivors k and k+1, top task k+2."""
    _, mode, head, first = kind.split(':')
    s1, s2, top = k, k + 1, k + 2
    if head != 'alldead':
        yield ('add', s1, 1)
    if head == 'head':
        yield ('add', top, 20)
    for i in range(k):
        yield ('add', i, 10)
    if head != 'alldead':
        yield ('add', s2, 1)
    for i in range(k):
        if mode == 'remove':
            yield ('remove', i, None)
        else:
            yield ('add', i, {'demote': -5, 'requeue': 10, 'promote': 30}[mode])
    yield (first, None, None)
    yield ('pop', None, None)
    yield ('peek', None, None)
    yield ('pop', None, None)
    # ... and the generic part of run_directed pops the rest to empty


LIVES_MODES = ('remove', 'requeue', 'demote')
LIVES_LASTS = ('pop', 'remove', 'popd', 'drain')


def _lives_ops(kind, k):
    """'lives:<mode>:<last>:<number of lives>' - the SAME queue object is used for several phases of life.  In each life
    a burst of k tasks arrives at the default priority together with one urgent task (queued after the burst in even
    lives, before it in odd ones); the whole burst is cancelled (mode remove) or first re-prioritised (same / lower
    priority) and then cancelled, so k (or 2k) dead entries sit BEHIND the one live task; then the last live task leaves
    (pop / remove / pop(default); 'drain' = pop, then a bare pop on the empty queue, which has to raise IndexError).
    The queue is now empty of live tasks (len 0) while its backend may still hold every dead entry, and - except after
    'drain' - NO read happens before the next life starts with the same task objects at the same priorities.  The
    last life is a handful of adds (new and formerly cancelled / popped tasks, default and explicit priorities, ties)
    with len() after every add; the generic part of run_directed pops them to empty.  Task indexes: burst 0..k-1,
    urgent k, newcomers k+1, k+2."""
    _, mode, last, lives = kind.split(':')
    top = k
    for life in range(int(lives) - 1):
        if life % 2:
            yield ('add', top, 20)
        for i in range(k):
            yield ('add', i, None if i % 2 else 0)
        if not life % 2:
            yield ('add', top, 20)
        if mode != 'remove':
            for i in range(k):
                yield ('add', i, 0 if mode == 'requeue' else -5)
        for i in range(k):
            yield ('remove', i, None)
        yield ('len', None, None)
        if last == 'remove':
            yield ('remove', top, None)
        else:
            yield ('popd' if last == 'popd' else 'pop', None, None)
        if last == 'drain':
            yield ('pop', None, None)
        yield ('len', None, None)
        yield ('counter', None, None)
    for i, p in ((k + 1, None), (k + 2, 2), (0, None), (top, 0), (1, 2), (2, 1), (k + 1, None), (3, -5)):
        if i < k or top <= i <= k + 2:          # former burst tasks only if the burst had that many
            yield ('add', i, p)
            yield ('len', None, None)
    yield ('peek', None, None)
    yield ('pop', None, None)
    yield ('len', None, None)


def lives_variants(level):
    full = [(m, l, 2) for m in LIVES_MODES for l in LIVES_LASTS if m == 'remove' or l in ('pop', 'remove')]
    full += [('remove', 'pop', 3), ('remove', 'remove', 4)]
    if level == 'full':
        return full
    if level == 'few':
        return [('remove', 'pop', 2), ('remove', 'remove', 3), ('requeue', 'pop', 2), ('demote', 'remove', 2)]
    if level == 'two':
        return [('remove', 'pop', 2), ('requeue', 'remove', 2)]
    raise AssertionError(level)


def run_lives_group(arg):
    """All variants of one burst size -> (violations, one aggregated stats row)."""
    _, k, factor, level = arg
    variants = lives_variants(level)
    Vs = []
    agg = {'kind': 'lives (%d variants: how the burst dies x how the last live task leaves x number of lives)'
           % len(variants), 'n': k, 'size_factor': 'native' if factor is None else factor, 'ops': 0, 'max_entries': 0,
           'max_sublists': 0}
    for m, l, lives in variants:
        V, st = run_directed(('lives:%s:%s:%d' % (m, l, lives), k, factor))
        Vs.extend(V)
        agg['ops'] += st['ops']
        agg['max_entries'] = max(agg['max_entries'], st['max_entries'])
        agg['max_sublists'] = max(agg['max_sublists'], st['max_sublists'])
    return Vs, agg


def deadrun_variants(level):
    """Variant lists (mode, head, first read).  'alldead' differs from 'nohead' only with mode remove."""
    full = [(m, h, f) for m in DEADRUN_MODES for h in ('head', 'nohead') for f in DEADRUN_FIRSTS]
    full += [('remove', 'alldead', f) for f in DEADRUN_FIRSTS]
    if level == 'full':
        return full
    if level == 'medium':
        return ([(m, h, 'pop') for m in DEADRUN_MODES for h in ('head', 'nohead')] +
                [('remove', 'head', 'peek'), ('remove', 'nohead', 'peek'), ('remove', 'alldead', 'pop'),
                 ('remove', 'alldead', 'popd')])
    if level == 'few':
        return [('remove', 'nohead', 'pop'), ('demote', 'head', 'pop'), ('requeue', 'nohead', 'pop'),
                ('promote', 'head', 'pop'), ('remove', 'head', 'peek')]
    if level == 'two':
        return [('remove', 'nohead', 'pop'), ('requeue', 'head', 'pop')]
    raise AssertionError(level)


def run_deadrun_group(arg):
    """All variants of one dead-run length -> (violations, one aggregated stats row)."""
    _, k, factor, level = arg
    variants = deadrun_variants(level)
    Vs = []
    agg = {'kind': 'deadrun (%d variants: how the run dies x live top task or not x first read)' % len(variants), 'n': k,
           'size_factor': 'native' if factor is None else factor, 'ops': 0, 'max_entries': 0, 'max_sublists': 0}
    for m, h, f in variants:
        V, st = run_directed(('deadrun:%s:%s:%s' % (m, h, f), k, factor))
        Vs.extend(V)
        agg['ops'] += st['ops']
        agg['max_entries'] = max(agg['max_entries'], st['max_entries'])
        agg['max_sublists'] = max(agg['max_sublists'], st['max_sublists'])
    return Vs, agg


def run_directed_item(arg):
    return (run_deadrun_group(arg) if arg[0] == 'deadrun' else run_lives_group(arg) if arg[0] == 'lives' else
            run_directed(arg))


def run_directed(arg):
    """-> (violations, stats).  Both real queues against a dict + stable sort oracle."""
    kind, n, factor = arg
    from boltons import queueutils, listutils
    listutils.BarrelList._size_factor = NATIVE[0] if factor is None else factor
    install_guard()
    case = {'directed': {'kind': kind, 'n': n, 'size_factor': 'native' if factor is None else factor}}
    V = []
    stats = {'kind': kind, 'n': n, 'size_factor': 'native' if factor is None else factor, 'ops': 0, 'max_entries': 0, 'max_sublists': 0}

    def body():
        T = [Task(i) for i in range(n + 3)]
        scripted = kind.startswith(('deadrun:', 'lives:'))          # the history contains its own reads
        qs = {'heap': queueutils.HeapPriorityQueue(), 'sorted': queueutils.SortedPriorityQueue()}
        live = {}            # index -> (effective priority, arrival number)
        arrival = 0
        pending = list(_scenario_ops(kind, n))

        def expected():
            return [i for i, _ in sorted(live.items(), key=lambda kv: (-kv[1][0], kv[1][1]))]

        def measure():
            pq = qs['sorted']._pq
            subs = getattr(pq, 'lists', None)
            stats['max_entries'] = max(stats['max_entries'], len(pq))
            if subs is not None:
                stats['max_sublists'] = max(stats['max_sublists'], len(subs))

        def pop_some(k, phase):
            want = expected()[:k]
            for which, q in qs.items():
                got = []
                for _ in range(len(want)):
                    try:
                        t = q.pop()
                    except Exception as e:
                        got.append('raised ' + type(e).__name__)
                        break
                    got.append(t.name if isinstance(t, Task) else repr(t))
                stats['ops'] += len(got)
                if got != want:
                    j = next((x for x in range(min(len(got), len(want))) if got[x] != want[x]), min(len(got), len(want)))
                    V.append(('C10|directed|%s:pop-order' % which, case,
                              {'phase': phase, 'first difference at pop': j, 'expected': want[j:j + 5]},
                              {'observed': got[j:j + 5]}, None, ()))
                    return False
            for i in want:
                del live[i]
            for which, q in qs.items():
                if len(q) != len(live):
                    V.append(('C10|directed|%s:len' % which, case, len(live), len(q), None, ()))
                    return False
            return True

        def read(name):
            """One scripted pop / peek (with or without default) on both queues against the oracle."""
            want = expected()[:1]
            exp = want[0] if want else ('raised IndexError' if name in ('pop', 'peek') else DEFAULT)
            for which, q in qs.items():
                try:
                    r = (q.pop() if name == 'pop' else q.peek() if name == 'peek' else
                         q.pop(DEFAULT) if name == 'popd' else q.peek(DEFAULT))
                    r = r.name if isinstance(r, Task) else (DEFAULT if r is DEFAULT else 'unexpected value ' + repr(r))
                except Exception as e:
                    r = 'raised ' + type(e).__name__
                stats['ops'] += 1
                if r != exp:
                    V.append(('C10|directed|%s:%s' % (which, READ_SHAPE[name]), case,
                              {'live tasks': len(live), 'expected': exp}, {'observed': r}, None, ()))
                    return False
            if want and name.startswith('pop'):
                del live[want[0]]
            for which, q in qs.items():
                try:
                    ln = len(q)
                except Exception as e:
                    ln = 'raised ' + type(e).__name__
                if ln != len(live):
                    V.append(('C10|directed|%s:len' % which, case, len(live), ln, None, ()))
                    return False
            return True

        half = len(pending) // 2
        for step, (name, i, p) in enumerate(pending):
            if name in READ_SHAPE:
                measure()
                if not read(name):
                    return
                continue
            if name == 'len':
                for which, q in qs.items():
                    try:
                        ln = len(q)
                    except Exception as e:
                        ln = 'raised ' + type(e).__name__
                    stats['ops'] += 1
                    if ln != len(live):
                        V.append(('C10|directed|%s:len' % which, case, len(live), ln, None, ()))
                        return
                continue
            if name == 'counter':
                # the anchored tie-breaker: the next insertion counter exceeds every counter still in the backend (dead
                # entries included), else a new entry can tie with an old one on (priority, counter).  Internals that
                # cannot be read are the exhaustive searches' business (internals-unreadable), not reported here.
                measure()
                for which, q in qs.items():
                    try:
                        flat = [e for sub in entries_of(q, which) for e in sub]
                        nxt = next(copy.copy(q._counter))
                        top_c = max(e[1] for e in flat) if flat else None
                        stale = top_c is not None and not nxt > top_c
                    except Exception:
                        continue
                    if stale:
                        V.append(('C10|directed|%s:counter-not-monotone' % which, case,
                                  'next insertion counter > every counter in the backend (%d entries, max %r)'
                                  % (len(flat), top_c), nxt, None, ()))
                continue
            if name == 'addx':
                got = {}
                for which, q in qs.items():
                    try:
                        q.add(T[i], p)
                        got[which] = 'accepted'
                    except Exception as e:
                        got[which] = 'raised ' + type(e).__name__
                stats['ops'] += 2
                if got['heap'] != got['sorted']:
                    V.append(('C10|directed|heap!=sorted:add(rejected-priority)', case, 'identical outcomes', got, None, ()))
                    return
                if got['heap'] == 'accepted':
                    stats['stopped'] = 'a priority without effective priority was accepted: order not stated'
                    return
                for which, q in qs.items():
                    if len(q) != len(live):
                        V.append(('C10|directed|%s:len-after-add-raised' % which, case, len(live), len(q), None, ()))
                        return
                continue
            for which, q in qs.items():
                try:
                    if name == 'add':
                        q.add(T[i], p)
                    elif i in live:
                        q.remove(T[i])
                except Exception as e:
                    V.append(('C10|directed|%s:%s-raised' % (which, name), case, 'no exception',
                              type(e).__name__, None, ()))
                    return
            stats['ops'] += 2
            if name == 'add':
                live[i] = (0.0 if p is None else float(p), arrival)
                arrival += 1
            else:
                live.pop(i, None)
            if step == half and not scripted:
                measure()
                if not pop_some(len(live) // 3, 'after half of the operations'):
                    return
        measure()
        for which, q in ({} if scripted else qs).items():
            try:
                t = q.peek()
                t = t.name if isinstance(t, Task) else repr(t)
            except Exception as e:
                t = 'raised ' + type(e).__name__
            want = expected()[:1]
            if [t] != want:
                V.append(('C10|directed|%s:peek' % which, case, want, t, None, ()))
                return
        if not pop_some(len(live), 'final drain'):
            return
        for which, q in qs.items():
            try:
                q.pop()
                r = 'returned'
            except IndexError:
                r = 'IndexError'
            except Exception as e:
                r = type(e).__name__
            if r != 'IndexError':
                V.append(('C10|directed|%s:pop-on-empty' % which, case, 'IndexError', r, None, ()))

    signal.setitimer(signal.ITIMER_VIRTUAL, 120.0)
    try:
        body()
    except Hang:
        V.append(('C10|directed|does-not-terminate', case, 'terminates', '120 s CPU exceeded', None, ()))
    finally:
        signal.setitimer(signal.ITIMER_VIRTUAL, 0)
    return V, stats


DIRECTED_KINDS = ('ascending', 'descending', 'equal', 'alternating', 'churn')


def directed_plan(tier):
    """(kind, number of tasks, size factor); at the native factor the sorted backend splits beyond ~22 000 entries."""
    if os.environ.get(OPT_ENV):
        return [('purge', 300, None), ('churn', 2000, None)]
    plan = [(k, 40000, None) for k in DIRECTED_KINDS] + [('purge', 300, None), ('purge', 3000, None)]
    plan += [('numeric-types', 4000, None), ('rejected-readds', 4000, None)]
    if tier != 'quick':
        plan += [('numeric-types', 40000, None), ('rejected-readds', 40000, None), ('numeric-types', 3000, 8),
                 ('rejected-readds', 3000, 8)]
    if tier != 'quick':
        plan += [(k, 80000, None) for k in DIRECTED_KINDS] + [(k, 6000, 8) for k in DIRECTED_KINDS]
    return plan + deadrun_plan(tier) + lives_plan(tier)


def first_split_size(factor):
    """Smallest number of entries at which a one-sub-list BarrelList of that size factor exceeds its size limit
    (the limit formula is re-stated here, it is only used to choose a scenario size)."""
    import math
    n = 1
    while n <= int(round(factor * math.log(n + 2, 2))):
        n += 1
    return n


def deadrun_plan(tier):
    """('deadrun', length of the run of dead entries, size factor, variant level).  Lengths straddle the thresholds
    a per-dead-entry cost could hit: 0/1/2, powers of two +-1, the interpreter's recursion limit (read from the running
    interpreter) and a multiple of it, and a run longer than the first sub-list split of the sorted backend at the
    native size factor (computed from the factor found in the module under test)."""
    import sys
    R = sys.getrecursionlimit()
    split = first_split_size(NATIVE[0]) if isinstance(NATIVE[0], int) and 0 < NATIVE[0] <= 4000 else 25000
    beyond_split = split + split // 8
    small = sorted({0, 1, 2, 31, 32, 33, 255, 256, 257})
    edge = sorted({R - 1, R, R + 1, 1023, 1024, 1025})
    if tier == 'quick':
        plan = [('deadrun', k, None, 'full') for k in small] + [('deadrun', k, None, 'full') for k in edge]
        plan += [('deadrun', k, None, 'few') for k in sorted({3 * R, 4096})]
        plan += [('deadrun', beyond_split, None, 'two')]
    else:
        plan = [('deadrun', k, None, 'full') for k in small + edge + sorted({3 * R, 4095, 4096, 4097, 10 * R})]
        plan += [('deadrun', k, None, 'medium') for k in (beyond_split, 2 * beyond_split)]
        plan += [('deadrun', k, 8, 'full') for k in small + edge] + [('deadrun', 4096, 8, 'medium')]
    return [p for p in plan if p[1] >= 0]


def lives_plan(tier):
    """('lives', burst size, size factor, variant level).  Burst sizes = the dead-run lengths (0/1/2, powers of two +-1,
    recursion limit, beyond the first sub-list split): any size-triggered treatment of a queue that has just lost its
    last live task (bulk release of dead entries, shrinking, restarting counters) has its threshold somewhere."""
    out = []
    for _, k, factor, level in deadrun_plan(tier):
        out.append(('lives', k, factor, {'medium': 'few'}.get(level, level)))
    return out


# ----------------------------------------------------------------------------------------------------

REDUCED = dict(tasks=TASKS[:3], prios=(None, 1, -1))
SIX = ('equal6', 'rising6', 'falling6')


OPT_ENV = 'VERIF_C10_OPTIMIZED_CHILD'    # set in the child that repeats two small searches under `python -O`


def optimized_child(ctx, only=None):
    """The statement does not depend on interpreter options.  `python -O` strips `assert` statements (and sets
    __debug__ to False): a state change tucked into an assert disappears there.  Two small searches and the purge
    scenarios are repeated in a child interpreter with PYTHONOPTIMIZE=1; every signature the child reports becomes a
    violation here.  -> summary for the evidence file."""
    import json
    import shutil
    import tempfile
    out = tempfile.mkdtemp(prefix='c10-opt-', dir='/dev/shm' if os.path.isdir('/dev/shm') else None)
    try:
        env = dict(os.environ, PYTHONOPTIMIZE='1', VERIF_OUT=out, **{OPT_ENV: '1'})
        cp = subprocess.run([sys.executable, os.path.join(core.VERIF, 'check'), 'C10', '--tier', 'quick'],
                            capture_output=True, text=True, env=env, timeout=3600)
        lines = cp.stdout.splitlines()
        found = []
        for i, l in enumerate(lines):
            if l.strip().startswith('signature:'):
                sig = l.strip()[len('signature:'):].strip().split('  (x')[0]
                rest = [x.strip() for x in lines[i + 1:i + 4]]
                found.append((sig, rest))
        if cp.returncode not in (0, 1) and not found:
            found.append(('C10|check crashed', [(cp.stdout + cp.stderr)[-400:]]))
        summary = {'interpreter': 'PYTHONOPTIMIZE=1 (python -O): assert statements stripped', 'exit': cp.returncode,
                   'searches': [l.strip() for l in lines if l.strip().startswith('size_factor=')]}
        msgs = []
        for sig, rest in found:
            sig2 = 'C10|interpreter:python -O|' + sig[len('C10|'):] if sig.startswith('C10|') else 'C10|interpreter:python -O|' + sig
            if only is None:
                ctx.violation(sig2, {'kind': 'optimized-child', 'child_signature': sig, 'child_report': rest},
                              'the same behaviour as without -O', 'violation reported by the check run under python -O')
            elif only == sig:
                msgs.append('%s %s' % (sig2, ' '.join(rest)))
        return msgs if only is not None else summary
    finally:
        shutil.rmtree(out, ignore_errors=True)


def plan(tier):
    """(Spec, max_depth) per search.  The native configuration never splits its BarrelList inside the bound (that is
    what the scaled configurations are for); it checks the unscaled code paths the queues use at small sizes.
    The last five searches widen the *input classes* rather than the depth: numeric priorities of other types
    (Decimal, Fraction, bool, infinities, a large int) and ints float() cannot take (the add is a fault step: if it
    raises, nothing may have changed); the same with a validating user priority_key; tasks that are falsy; tasks that
    reach the queue as equal but never identical objects; None as a task."""
    t3 = TASKS[:3]
    if os.environ.get(OPT_ENV):
        return [(Spec(1, **REDUCED), 5), (Spec(None, **REDUCED), 4), (Spec(1, task_kind='falsy', **REDUCED), 4)]
    if tier == 'quick':
        return [(Spec(1), 6), (Spec(2, starts=SIX), 3), (Spec(None), 4),
                (Spec(1, tasks=t3, prios=NUMERIC_PRIOS, reads='reduced'), 4),
                (Spec(1, tasks=t3, prios=KEYED_PRIOS, key='nonneg', reads='reduced'), 4),
                (Spec(1, task_kind='falsy', **REDUCED), 5), (Spec(1, task_kind='equal-tuples', **REDUCED), 5),
                (Spec(1, task_kind='none-task', reads='reduced+task-default', **REDUCED), 4)]
    return [(Spec(1), 7), (Spec(1, **REDUCED), 8), (Spec(2, starts=SIX), 4), (Spec(2, **REDUCED), 8), (Spec(None), 5),
            (Spec(1, tasks=t3, prios=NUMERIC_PRIOS, reads='reduced'), 5),
            (Spec(1, tasks=t3, prios=KEYED_PRIOS, key='nonneg', reads='reduced'), 5),
            (Spec(None, tasks=t3, prios=KEYED_PRIOS, key='nonneg', reads='reduced'), 4),
            (Spec(1, task_kind='falsy', **REDUCED), 6), (Spec(1, task_kind='equal-tuples', **REDUCED), 6),
            (Spec(1, task_kind='none-task', reads='reduced+task-default', **REDUCED), 5)]


def validate_starts(spec, ctx):
    """A pre-loaded start state is itself a history: run it through the oracle step by step first, so that a defect
    on the way is attributed to the operation that causes it; a start that is not reached soundly is not explored
    from (everything after a divergence is noise).  -> number of steps executed."""
    good, steps = [], 0
    for s in spec.starts:
        h = () if s == 'empty' else PRELOADS[s]
        ok = True
        for i in range(len(h)):
            V, key, _ = spec.step(h[:i], h[i])
            steps += 1
            for v in V:
                ctx.violation(*v)
            if key is None:
                ok = False
                break
        if ok:
            good.append(s)
        else:
            ctx.note('start state %s is not reached soundly (see violations); not explored from' % s)
    spec.starts = tuple(good)
    spec.config['starts'] = list(good)
    return steps


def run(ctx):
    from boltons import listutils
    NATIVE[0] = listutils.BarrelList.__dict__.get('_size_factor', listutils.BarrelList._size_factor)
    install_guard()
    parts = []
    pre_steps = 0
    stopped = False
    HANGS[0] = 0
    try:
        for spec, depth in plan(ctx.tier):
            pre_steps += validate_starts(spec, ctx)
            res = histories.explore(spec, ctx, max_depth=depth)
            parts.append((dict(spec.config, max_depth=depth), res))
            ctx.note('size_factor=%s starts=%s tasks=%d(%s) prios=%d key=%s: depth=%d states=%d transitions=%d capped=%s'
                     % (spec.config['size_factor'], ','.join(spec.starts), len(spec.tasks), spec.task_kind,
                        len(spec.prios), spec.config['priority_key'], res.depth, res.states, res.transitions,
                        res.capped))
            if any('does-not-terminate' in k for k in ctx.viol):
                ctx.note('an operation does not terminate: remaining searches and the supplement are skipped')
                stopped = True
                break
        dplan = [] if stopped else directed_plan(ctx.tier)
        dres = core.pmap(run_directed_item, dplan)
    finally:
        listutils.BarrelList._size_factor = NATIVE[0]
    cov = histories.merge_coverage(ctx, parts, rule=(
        'product BFS (HeapPriorityQueue x SortedPriorityQueue x model) over all histories of the op menu up to the '
        'stated depth; a state is the canonical form of both real backends (storage order, counters by rank, tasks by '
        'first appearance, sub-list boundaries); every transition is executed on both real queues'))
    complete = (not stopped and not any('does-not-terminate' in k for k in ctx.viol) and
                all(r.fixpoint or (r.capped or '').startswith('depth') for _, r in parts))
    cov['exhaustive'] = complete
    cov['preload_steps_validated'] = pre_steps
    cov['exhaustive_means'] = ('every history over the op menu up to max_depth was executed, per search and start state '
                               '(depth bound, not a fixpoint); the native-scale supplement is excluded from this claim')
    cov['bounds'] = {'tasks': list(TASKS), 'priorities': list(PRIOS),
                     'numeric_type_priorities': list(NUMERIC_PRIOS), 'priority_keys': ['default'] + sorted(KEYS),
                     'keyed_priorities': list(KEYED_PRIOS), 'task_kinds': list(TASK_KINDS), 'ops': [m[0] for m in Spec(1).menu[:7]] +
                     ['add(t)', 'add(t,p)', 'remove(t)'],
                     'depth_per_search': [c['max_depth'] for c, _ in parts],
                     'native_size_factor': NATIVE[0]}
    sup = {'exhaustive': False, 'what': 'directed histories at the native size factor with tens of thousands of entries '
           '(thorough: also size factor 8 with hundreds of sub-lists): adds in ascending / descending / equal / '
           'alternating priority and add/re-add/remove churn, a third popped half-way, peek, then popped to empty; '
           'scattered removal of 70 % of the entries; and "deadrun" histories: a burst of k equal-priority tasks is '
           'removed / re-added lower / re-added with the same priority / re-added higher before anything is consumed '
           '(one run of k consecutive dead entries at the very head or behind one live task), then pop / peek / '
           'pop(default) / peek(default) as the FIRST read, pop, peek, pop, popped to empty, for k around 0, powers of '
           'two, the interpreter recursion limit and beyond the first sub-list split; "lives" histories: the same queue is '
           'emptied of live tasks (pop / remove / pop(default) of the last one) on top of k..2k dead entries and re-used '
           'without a read in between, 2-4 lives, same k; priorities of all numeric types '
           'with cross-type ties; churn with re-adds whose priority float() cannot take (must leave the task in place '
           'if they raise); all against a dict + stable-sort oracle', 'scenarios': []}
    for V, stats in dres:
        for v in V:
            ctx.violation(*v)
        sup['scenarios'].append(stats)
    sup['operations'] = sum(s['ops'] for s in sup['scenarios'])
    cov['native_scale_supplement'] = sup
    if not os.environ.get(OPT_ENV) and not stopped:
        cov['optimized_interpreter'] = optimized_child(ctx)
        ctx.note('python -O child: exit %s, %d searches' % (cov['optimized_interpreter']['exit'],
                                                          len(cov['optimized_interpreter']['searches'])))
    ctx.note('directed supplement (not exhaustive): %d scenarios, %d operations, up to %d entries in %d sub-lists'
             % (len(dres), sup['operations'], max([s['max_entries'] for s in sup['scenarios']] or [0]),
                max([s['max_sublists'] for s in sup['scenarios']] or [0])))
    ctx.assumptions += [
        'tasks are hashable objects with identity ==/hash and no ordering; the queues can tell tasks apart only '
        'through ==/hash (an attempt to order them raises TypeError and is reported), so states that differ by a '
        'renaming of tasks have renamed futures and are merged',
        'insertion counters are only compared and every new one exceeds all old ones (checked in every state), so '
        'they are canonicalised to their rank',
        'removing an absent task: the statement fixes no outcome; any exception class or return is accepted, but both '
        'queues must do the same and the live tasks must stay as they were; add / remove of a present task must not '
        'raise, what they return is not compared with the model',
        'an add whose priority has no effective priority (float() of it raises, or the harness\'s own validating '
        'priority_key rejects it): the statement fixes no outcome; any exception class is accepted, both queues must '
        'do the same, and after an exception the live tasks, their order and len must be as before; if both queues '
        'accept the priority the branch is not explored (where the task belongs is not stated)',
        'priorities of non-float numeric types are chosen exactly representable as floats, so ordering by the given '
        'value and by the effective (float) priority coincide; the validating priority_key equals the default key on '
        'everything it accepts and maps None like 0',
        'the search is depth-bounded (tombstones make the state space infinite); the native-scale supplement is a '
        'finite list of directed histories, not an enumeration',
    ]


def _tuplify(op):
    return tuple(op)


def replay(ctx, data):
    from boltons import listutils
    NATIVE[0] = listutils.BarrelList.__dict__.get('_size_factor', listutils.BarrelList._size_factor)
    install_guard()
    HANGS[0] = 0
    case = data['case']
    if case.get('kind') == 'optimized-child':
        return optimized_child(ctx, only=case['child_signature'])
    msgs = []
    try:
        if 'directed' in case:
            d = case['directed']
            V, _ = run_directed((d['kind'], d['n'], None if d['size_factor'] == 'native' else d['size_factor']))
            return ['%s expected=%r observed=%r' % (v[0], v[2], v[3]) for v in V]
        cfg = case['config']
        key = cfg.get('priority_key', 'default')
        spec = Spec(None if cfg['size_factor'] == 'native' else cfg['size_factor'], tasks=cfg['tasks'],
                    prios=cfg['priorities'], key=None if key == 'default' else key,
                    task_kind=cfg.get('task_kind', 'objects'), reads=cfg.get('reads', 'full'))
        hist = [_tuplify(op) for op in case['history']]
        for i in range(len(hist)):
            V, key, _ = spec.step(tuple(hist[:i]), hist[i])
            for v in V:
                msgs.append('step %d %r: %s expected=%r observed=%r' % (i, hist[i], v[0], v[2], v[3]))
            if key is None:
                break
    finally:
        listutils.BarrelList._size_factor = NATIVE[0]
    return msgs

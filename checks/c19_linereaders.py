"""C19 - Line readers split exactly at line boundaries, for every text and block size.

Engine E2 (mc.inputs): bounded exhaustive enumeration of inputs x configurations on the real code.

  part iter_splitlines   every text <= N over 12 symbols (all 8 line-break forms of the statement, plus 'a', space,
                         '2', '8', '9' - the characters of the pinned `\\x2028` typo); oracle str.splitlines() plus one
                         final '' when the text ends with a line break.
  part iter_splitlines-chars  "never splits anywhere else": every code point U+0000..U+10FFFF (except \\x1c-\\x1e, which
                         str.splitlines breaks at but the statement does not list) inside 'aXb', the code points below
                         U+3000 in 8 more templates, every 2-character text over Latin-1 + U+2028/9 (second call), and
                         directed bulk texts of 2**k +-1 lines (all break forms; \\x1f-delimited records); same oracle.
  part indent            every text <= N-1 x 2 (margin, newline, key) settings; oracle: the documented rule applied to
                         the reference splitter.
  part reverse_iter_lines  every content <= M tokens over {a, e-acute (2 bytes), U+2028 (3 bytes, NOT a separator
                         here), space, \\n, \\r\\n} x every blocksize 1..len(bytes)+1 and the default x five kinds of
                         file object (BytesIO, real 'rb' file, unbuffered real file, text-mode real file,
                         TextIOWrapper(BytesIO)) x preseek True / False-with-cursor-at-end.
                         Oracle (DESIGN 5.1): no element contains a line break and '\\n'.join(reversed(L)) == content
                         with \\r\\n -> \\n, i.e. L == content.split('\\n')[::-1]; identical for every blocksize.
  part reverse_iter_lines-file-state  the same contents (one token shorter) x a reduced set of block sizes x the state
                         of the file object handed over: text-mode w+ / a+ / r+ files, a binary r+b file and a
                         TextIOWrapper(BytesIO()) whose newest lines were written through the object and are still
                         unflushed, and a text-mode file that was already read from; same oracle (the content is
                         what reading the object back would show).
  part reverse_iter_lines-file-wrappers  files that are not instances of an io class (they have .encoding / .detach /
                         .seek by delegation only): codecs.open(), tempfile.NamedTemporaryFile and SpooledTemporaryFile
                         (in memory and rolled over) in text and binary mode, a user-written forwarding proxy around a
                         text file / TextIOWrapper / binary file / raw file / BytesIO; gzip files, an mmap; contents two tokens shorter,
                         reduced block sizes; same oracle.  Part jsonl-file-wrappers: part jsonl (<= 2 lines) over them.
  part reverse_iter_lines-block-edges  directed: files a little larger than twice jsonutils.DEFAULT_BLOCKSIZE made of a
                         repeated pattern (CRLF, 2/3/4-byte characters, empty lines), shifted so that every byte of the
                         pattern falls on a block edge, read with the default block, the constant, +-1 and x2.
  part reverse_iter_lines-large-files  directed ("whatever the file size"): files of exactly 2**k - 1, 2**k, 2**k + 1
                         bytes (k = 16, 20, 22; thorough also 18, 24) and around every integer constant of
                         boltons.jsonutils that looks like a size threshold; numbered lines with mixed \\r\\n / \\n
                         breaks, empty lines and multi-byte characters (with / without a final break) and one line that
                         fills the file; default block, 65537, file size + 1 x five kinds of file object x preseek.
  part reverse_iter_lines-encodings  text-mode files in latin-1, cp1252 and utf-8-sig and binary objects passed with an
                         explicit encoding=, every content <= 3 tokens x every blocksize x preseek; plus JSONLIterator
                         forward / reverse over such text-mode files.
  part reverse_iter_lines-multibyte  "content with multi-byte characters": for every UTF-8 lead byte (0xC2..0xF4) the
                         lowest and the highest code point encoded with it (so every lead byte and the extreme
                         continuation bytes 0x80 / 0xBF occur) x 8 content templates that put the character at the
                         start / end of the file and of a line x every blocksize x file kind x preseek; same oracle.
                         The same templates with the characters \\v \\f \\x1c-\\x1e \\x85 U+2028 U+2029, which
                         str.splitlines() breaks at and this function must not.
  part jsonl             every file of <= K lines over a 7-line menu (objects, blank lines, a corrupt line, a
                         5000-byte object) x trailing newline x eol x {text file, binary file, BytesIO} x
                         ignore_errors x {forward, reverse with the native 4096-byte block, reverse with the block
                         scaled to 3 / to the file size +-1 through a wrapper around jsonutils.reverse_iter_lines}.
                         Oracle: json.loads of the non-blank lines (corrupt ones skipped iff ignore_errors, else
                         ValueError at that position); reverse == the same read last line first.
  part jsonl-long-gaps   "whatever the file size": directed (NOT exhaustive in the size) files  gap obj gap obj gap  whose
                         gaps are runs of n blank / whitespace-only / corrupt / undecodable / mixed lines, n around
                         powers of two and around the interpreter's recursion limit; same oracle as part jsonl.
  part jsonl-corrupt-forms  the forms of an undecodable line: 11 JSON values x 17 textual damages (two records run
                         together, trailing garbage, truncation, wrong quotes, ...; padded / wrapped values stay
                         valid), tab-only blank lines and a line nested deeper than json.loads accepts, in 4 file layouts
                         x eol x file kind x ignore_errors x direction, driven with next(it) and with iter(it).next().
                         Oracle: the stdlib json.loads decides which lines are records.
                         Also: records holding \\x85, U+2028, U+2029 (valid raw inside a JSON string) or \\v \\f
                         \\x1c-\\x1e in the middle of the line - one line in both directions - additionally over a
                         TextIOWrapper(BytesIO).
  part jsonl-large-files  directed: JSON Lines files of exactly 2**k (+-1) bytes (as above) with blank and corrupt lines
                         interspersed, mixed eol, a raw U+2028 in every record; four file kinds x ignore_errors x
                         {forward, reverse native, reverse with one block for the whole file}.

Real files live in a scratch directory under /dev/shm which is removed at the end of the run.
"""
import codecs
import gzip
import io
import itertools
import json
import mmap
import os
import shutil
import signal
import sys
import tempfile

from mc import core, inputs

PROPERTY = 'C19'
LEVEL = 'exploration'

# ---------------------------------------------------------------------------------------------------------------
# hang guard: a call into the code under test that does not return is reported, it does not hang the checker.
# Hang derives from BaseException so that `except Exception` inside the code under test cannot swallow it.

CALL_BUDGET_S = 5           # CPU seconds (ITIMER_PROF: independent of machine load); one call normally takes < 50 ms
ITEM_LIMIT = 4096           # no explored case has more than ~40 lines
HANG_FLAG = None            # path of a flag file in the scratch dir: set by the first worker that sees a hang, so the
                            # remaining shards stop at once instead of paying the budget for every case


class Hang(BaseException):
    pass


def _on_alarm(signum, frame):
    raise Hang()


class deadline:
    def __enter__(self):
        self.old = signal.signal(signal.SIGPROF, _on_alarm)
        signal.setitimer(signal.ITIMER_PROF, CALL_BUDGET_S)

    def __exit__(self, *exc):
        signal.setitimer(signal.ITIMER_PROF, 0)
        signal.signal(signal.SIGPROF, self.old)
        return False


def saw_hang(t=None):
    """Record (t given) or query the run-wide hang flag."""
    if HANG_FLAG is None:
        return False
    if t is not None:
        try:
            open(HANG_FLAG, 'w').close()
        except OSError:
            pass
        t.add('hangs')
        return True
    return os.path.exists(HANG_FLAG)


def drain(it, limit=None):
    """list(it) with an item limit; returns ('ok', list) | ('exc', TypeName) | ('hang', why)."""
    limit = ITEM_LIMIT if limit is None else limit
    try:
        with deadline():
            out = list(itertools.islice(it, limit + 1))
    except Hang:
        return ('hang', 'no result within %d s' % CALL_BUDGET_S)
    except Exception as e:
        return ('exc', type(e).__name__)
    if len(out) > limit:
        return ('hang', 'more than %d items' % limit)
    return ('ok', out)


# ---------------------------------------------------------------------------------------------------------------
# part 1: iter_splitlines / indent

BREAKS = ('\n', '\r', '\x0b', '\x0c', '\x85', '\u2028', '\u2029')      # '\r\n' arises as the pair
BREAK_NAME = {'\n': 'LF', '\r': 'CR', '\x0b': 'VT', '\x0c': 'FF', '\x85': 'NEL', '\u2028': 'U+2028',
              '\u2029': 'U+2029'}
ORDINARY = ('a', ' ', '2', '8', '9')
SPLIT_ALPHABET = ORDINARY + BREAKS      # 12 symbols, simplest first


def ref_splitlines(text):
    """The statement's oracle: str.splitlines, plus one final '' when the text ends with a line break.
    (Over SPLIT_ALPHABET str.splitlines knows exactly the breaks the statement lists.)"""
    out = text.splitlines()
    if text and text[-1] in BREAKS:
        out.append('')
    return out


def classify_split(text, exp, obs):
    """What disagreed - built from the shape of the difference only."""
    if obs[0] != 'ok':
        return 'no termination' if obs[0] == 'hang' else 'raised ' + obs[1]
    got = obs[1]
    if any(not isinstance(x, str) for x in got):
        return 'item type'
    if got == exp[:-1] and exp[-1:] == [''] or got == exp + ['']:
        return 'final empty string'
    pos = 0
    for i in range(max(len(got), len(exp))):
        if i >= len(exp):
            return 'extra items'
        if i >= len(got):
            return 'missing items'
        e, g = exp[i], got[i]
        if e != g:
            if g.startswith(e):
                nxt = text[pos + len(e): pos + len(e) + 2]
                name = 'CRLF' if nxt == '\r\n' else BREAK_NAME.get(nxt[:1], '?')
                return 'line break not split: ' + name
            if e.startswith(g):
                return 'split where there is no line break'
            return 'line text'
        pos += len(e)
        # skip the break that ended exp[i]
        if text[pos:pos + 2] == '\r\n':
            pos += 2
        else:
            pos += 1
    return 'line text'


def check_split(strutils, text):
    exp = ref_splitlines(text)
    obs = drain(strutils.iter_splitlines(text), limit=max(ITEM_LIMIT, len(text) + 2))     # a split has <= len+1 pieces
    if obs == ('ok', exp):
        return None
    return ('C19|fn:iter_splitlines|' + classify_split(text, exp, obs), exp, list(obs))


def _key_true(line):
    return True


INDENT_SETTINGS = (('> ', '\n', None), ('\t', '|', 'always'))


def check_indent(strutils, text, setting):
    margin, newline, keyname = setting
    key = bool if keyname is None else _key_true
    exp = newline.join((margin + l if key(l) else l) for l in ref_splitlines(text))
    try:
        with deadline():
            if keyname is None:
                got = strutils.indent(text, margin, newline)
            else:
                got = strutils.indent(text, margin, newline=newline, key=key)
        obs = ('ok', got)
    except Hang:
        obs = ('hang', 'no result')
    except Exception as e:
        obs = ('exc', type(e).__name__)
    if obs == ('ok', exp):
        return None
    what = 'result' if obs[0] == 'ok' else ('no termination' if obs[0] == 'hang' else 'raised ' + obs[1])
    return ('C19|fn:indent|' + what, exp, list(obs))


def split_shard(arg):
    """arg = (length, prefix tuple, with_indent)"""
    from boltons import strutils
    strutils = inputs.SecondCallModule(strutils, names=('iter_splitlines', 'indent'))     # see inputs.second_call
    n, prefix, with_indent = arg
    t = inputs.Tally()
    head = ''.join(prefix)
    for k, rest in enumerate(itertools.product(SPLIT_ALPHABET, repeat=n - len(prefix))):
        if k % 256 == 0 and saw_hang():
            t.add('cut_short_after_hang')
            return t
        text = head + ''.join(rest)
        nontrivial = any(c in BREAKS for c in text)
        case = {'part': 'iter_splitlines', 'text': text}
        t.count(nontrivial=nontrivial, sample=case if nontrivial else None)
        bad = check_split(strutils, text)
        if bad:
            t.bad(bad[0], case, bad[1], bad[2])
            if bad[0].endswith('no termination'):
                saw_hang(t)
        if with_indent:
            for si, setting in enumerate(INDENT_SETTINGS):
                t.add('indent_evaluations')
                bad = check_indent(strutils, text, setting)
                if bad:
                    t.bad(bad[0], {'part': 'indent', 'text': text, 'setting': si}, bad[1], bad[2])
                    if bad[0].endswith('no termination'):
                        saw_hang(t)
    return t


def split_shards(maxlen, indent_maxlen):
    out = []
    for n in range(0, maxlen + 1):
        depth = min(n, 2) if n >= 4 else 0
        for prefix in itertools.product(SPLIT_ALPHABET, repeat=depth):
            out.append((n, prefix, n <= indent_maxlen))
    return out


# ---------------------------------------------------------------------------------------------------------------
# part 1b: "never splits anywhere else" - every character that is NOT a line break, and bulk texts.
#
# str.splitlines() also breaks at \x1c, \x1d, \x1e, which the statement does not list: texts containing them are outside
# the statement's domain and are the only code points left out.  Every other code point is an ordinary character (or one
# of the listed breaks) and the oracle stays str.splitlines().

UNLISTED_BREAKS = ('\x1c', '\x1d', '\x1e')
SWEEP_TEMPLATE = 'aXb'                                   # every code point U+0000..U+10FFFF (incl. lone surrogates)
LOW_LIMIT = 0x3000                                       # below: controls, Latin, General Punctuation (U+2028/9) ...
LOW_TEMPLATES = ('X', 'XX', 'aX', 'Xa', 'X\nX', 'X\r\n', '\rX', ' X8')
SWEEP_SHARDS = 64
PAIR_CHARS = tuple(c for c in map(chr, range(0x100)) if c not in UNLISTED_BREAKS) + ('\u2028', '\u2029')
BULK_BREAKS = ('\n', '\r\n', '\r', '\x0b', '\x0c', '\x85', '\u2028', '\u2029')


def chars_text(case):
    if 'bulk' in case:
        return bulk_text(case['bulk'], case['n'])
    if 'thresh' in case:
        return thresh_text(case['shape'], case['thresh'], case['d'], case['brk'], case['fill'])
    return case['template'].replace('X', ''.join(chr(cp) for cp in case['codepoints']))


def bulk_sizes():
    """Numbers of lines around powers of two (caches, chunked scans), smallest first."""
    return sorted({2 ** k + d for k in (8, 10, 12, 16) for d in (-1, 0, 1)})


def bulk_text(kind, n):
    """n lines; kind 'cycle': line i is 'a'*(i%3) ended by break form i%8; 'us': \x1f-delimited fields ended by \n;
    'final': as 'cycle' but without the last break."""
    if kind == 'us':
        return ''.join('%d\x1fa\x1f \n' % (i % 10) for i in range(n))
    text = ''.join('a' * (i % 3) + BULK_BREAKS[i % len(BULK_BREAKS)] for i in range(n))
    if kind == 'final':
        text = text[:-1] if not text.endswith('\r\n') else text[:-2]
    return text


# Long texts with a line break placed at / around a size threshold: an implementation that scans the text in chunks or
# windows (or switches strategy above some size) is wrong exactly where a (two-character) break meets a chunk edge.
# The thresholds are a sample: every power of two up to THRESH_MAX_POWER and every integer constant found by
# introspection of the module under test (module globals, constants of the code of its functions), and powers of ten.

THRESH_MAX_POWER_QUICK = 17
THRESH_MAX_POWER_THOROUGH = 20
THRESH_CONST_MAX_QUICK = 2 ** 20
THRESH_CONST_MAX_THOROUGH = 2 ** 22
THRESH_FILLERS = ('a', '\u20ac', '\U0001f600')   # 1-, 2- and 4-byte characters (CPython's internal string kinds)
THRESH_SHAPES = (                                # name, the values of d
    ('end', (-2, -1, 0, 1)),                     # filler * (T + d), break: the text ends with the break
    ('single', (-2, -1, 0, 1)),                  # filler * (T + d), break, 'b 1', break, 'c': no final break
    ('periodic', (0, 1, 2)),                     # filler * d, then 3 lines of exactly T characters (break included):
    ('periodic-1', (0, 1, 2)),                   # d = 1 puts a two-character break across every multiple of T;
    ('periodic+1', (0, 1, 2)),                   # the same with lines of T - 1 / T + 1 characters
    ('dense', (0, 1)),                           # filler * d, then T // len(break) breaks in a row (+ 'c' if d): the two
)                                                # parities put a two-character break across EVERY offset below T + d


def _code_ints(code, out, depth=0):
    for c in code.co_consts:
        if type(c) is int:
            out.add(c)
        elif type(c) in (tuple, frozenset):
            out.update(x for x in c if type(x) is int)
        elif hasattr(c, 'co_consts') and depth < 3:
            _code_ints(c, out, depth + 1)


def split_module_constants(strutils, quick=True):
    """Integer constants of the module under test that could be a chunk / window size of the splitter."""
    found = set()
    for name, v in sorted(vars(strutils).items(), key=lambda kv: kv[0]):
        if name.startswith('__'):
            continue
        if type(v) is int:
            found.add(v)
        elif type(v) in (tuple, list, frozenset, set):
            found.update(x for x in v if type(x) is int)
    import types
    for name, fn in sorted(vars(strutils).items(), key=lambda kv: kv[0]):
        fn = getattr(fn, '__wrapped__', fn)
        if not isinstance(fn, types.FunctionType) or getattr(fn, '__module__', None) != strutils.__name__:
            continue
        _code_ints(fn.__code__, found)
        for dv in (fn.__defaults__ or ()):
            if type(dv) is int:
                found.add(dv)
    top = THRESH_CONST_MAX_QUICK if quick else THRESH_CONST_MAX_THOROUGH
    return sorted(v for v in found if 4 <= v <= top)


def split_thresholds(strutils, quick=True):
    top = THRESH_MAX_POWER_QUICK if quick else THRESH_MAX_POWER_THOROUGH
    return sorted({2 ** k for k in range(2, top + 1)} | {10 ** k for k in range(1, 7) if 10 ** k <= 2 ** top}
                  | set(split_module_constants(strutils, quick)))


def thresh_text(shape, T, d, brk, fill):
    B, F = BULK_BREAKS[brk], THRESH_FILLERS[fill]
    if shape == 'end':
        return F * (T + d) + B
    if shape == 'single':
        return F * (T + d) + B + 'b 1' + B + 'c'
    if shape.startswith('periodic'):
        P = T + {'periodic': 0, 'periodic-1': -1, 'periodic+1': 1}[shape]
        return F * d + (F * (P - len(B)) + B) * 3
    if shape == 'dense':
        return F * d + B * (T // len(B)) + 'c' * d
    raise ValueError(shape)


def chars_shard(arg):
    from boltons import strutils
    kind, which = arg
    t = inputs.Tally()

    def one(mod, case, nontrivial, tags=()):
        text = chars_text(case)
        t.count(nontrivial=nontrivial, sample=case if nontrivial else None)
        bad = check_split(mod, text)
        if bad:
            t.bad(bad[0], case, bad[1] if len(text) < 100 else '<str.splitlines(text)>',
                  bad[2] if len(text) < 100 else [bad[2][0], '<%s items>' % (len(bad[2][1]) if bad[2][0] == 'ok' else '?')],
                  tags=tags)
            if bad[0].endswith('no termination'):
                saw_hang(t)
                return False
        return True

    def many(mod, items, nontrivial_of):
        """items: (template, code point tuple).  Fast pass: all items under one CPU-time budget, same oracle; any case
        that disagrees (or a budget overrun, or an exception) goes through the per-case path, which classifies and
        records it."""
        split = mod.iter_splitlines
        suspects = []
        try:
            with deadline():
                for item in items:
                    text = item[0].replace('X', ''.join(map(chr, item[1])))
                    if list(itertools.islice(split(text), 8)) != ref_splitlines(text):
                        suspects.append(item)
        except Hang:
            suspects = items
        except Exception:
            suspects = items
        sus = set(suspects)
        clean_nt = [it for it in items if it not in sus and nontrivial_of(it)]
        t.count(nontrivial=False, n=len(items) - len(sus) - len(clean_nt))
        if clean_nt:
            t.count(nontrivial=True, n=len(clean_nt), sample={'part': 'iter_splitlines-chars',
                                                             'template': clean_nt[0][0],
                                                             'codepoints': list(clean_nt[0][1])})
        for tpl, cps in suspects:
            if not one(mod, {'part': 'iter_splitlines-chars', 'template': tpl, 'codepoints': list(cps)},
                       nontrivial_of((tpl, cps))):
                return False
        return True

    if kind == 'sweep':
        import unicodedata
        category = unicodedata.category
        cps = [cp for cp in range(which, 0x110000, SWEEP_SHARDS) if chr(cp) not in UNLISTED_BREAKS]
        for lo in range(0, len(cps), 1024):
            if saw_hang():
                t.add('cut_short_after_hang')
                return t
            block = cps[lo:lo + 1024]
            # non-trivial: the characters that a sloppy pattern could take for a line break (assigned controls, format
            # characters, separators - among them the listed breaks themselves), and templates with a line break
            ntset = {cp for cp in block if category(chr(cp))[0] in 'CZ' and category(chr(cp)) not in ('Cn', 'Co', 'Cs')}
            items = [(tpl, (cp,)) for cp in block
                     for tpl in ((SWEEP_TEMPLATE,) + LOW_TEMPLATES if cp < LOW_LIMIT else (SWEEP_TEMPLATE,))]
            if not many(strutils, items, lambda it: it[1][0] in ntset or '\n' in it[0]):
                return t
    elif kind == 'pairs':
        mod = inputs.SecondCallModule(strutils, names=('iter_splitlines',))
        brk = {ord(c) for c in BREAKS}
        for c1 in PAIR_CHARS[which::16]:
            if saw_hang():
                t.add('cut_short_after_hang')
                return t
            items = [('X', (ord(c1), ord(c2))) for c2 in PAIR_CHARS]
            if not many(mod, items, lambda it: it[1][0] in brk or it[1][1] in brk):
                return t
    elif kind == 'bulk':
        for bk in ('cycle', 'final', 'us'):
            for n in bulk_sizes():
                t.add('bulk_texts')
                if not one(strutils, {'part': 'iter_splitlines-chars', 'bulk': bk, 'n': n}, True,
                           tags=('bulk_text',)):
                    return t
    elif kind in ('thresh-quick', 'thresh-thorough'):
        # smallest threshold first; one shard per break form
        thresholds = split_thresholds(strutils, kind == 'thresh-quick')
        for T in thresholds:
            if saw_hang():
                t.add('cut_short_after_hang')
                return t
            for shape, ds in THRESH_SHAPES:
                if shape == 'dense' and 1024 < T < thresholds[-1]:
                    continue            # a prefix of the dense text of the largest threshold
                for fill in range(len(THRESH_FILLERS)):
                    for d in ds:
                        t.add('threshold_texts')
                        if not one(strutils, {'part': 'iter_splitlines-chars', 'thresh': T, 'shape': shape, 'd': d,
                                              'brk': which, 'fill': fill}, True, tags=('long_text',)):
                            return t
    return t


def chars_shards(quick=True):
    return ([('sweep', k) for k in range(SWEEP_SHARDS)] + [('pairs', k) for k in range(16)] + [('bulk', 0)]
            + [('thresh-quick' if quick else 'thresh-thorough', k) for k in range(len(BULK_BREAKS))])


# ---------------------------------------------------------------------------------------------------------------
# part 2: reverse_iter_lines

REV_TOKENS = ('a', '\n', '\r\n', '\u00e9', ' ', '\u2028')
REV_MODES = ('bytesio', 'file-rb', 'file-rb-unbuffered', 'file-text', 'textio-bytesio')
# "state of the file object when it is handed over": files opened for update whose (newest) lines were written through
# the very object and are still pending in its write buffer, and a text-mode file that has already been read from.
# The content of such a file is what f.seek(0); f.read() would show.
REV_WRITTEN_MODES = ('file-text-w+-unflushed', 'file-text-a+-unflushed', 'file-text-r+-unflushed',
                     'file-r+b-unflushed', 'textio-bytesio-unflushed')
REV_STATE_MODES = REV_WRITTEN_MODES + ('file-text-partly-read',)
REV_STATE_MODES_QUICK = tuple(m for m in REV_STATE_MODES if m != 'file-text-r+-unflushed')    # r+ differs from a+ only
                                                                                              # in how it is opened
# "a binary or text-mode file" that is not an instance of an io class: the file objects of codecs.open() and of the
# tempfile module, and a user-written wrapper that forwards every attribute to the file it wraps.  They have the
# attributes of a file (encoding, detach, seek, tell, read) by delegation only.
# Plus seekable files of the standard library other than open() / BytesIO: a gzip file in binary and in text mode
# (a TextIOWrapper whose buffer is not a Buffered* object) and a memory-mapped file (mmap cannot map an empty file: the
# empty content is passed as a plain BytesIO there).
WRAP_TEXT_MODES = ('codecs-open-text', 'proxy-file-text', 'proxy-textio-bytesio', 'namedtemp-w+', 'spooled-w+',
                   'spooled-w+-rolled', 'gzip-rt')
WRAP_BINARY_MODES = ('proxy-file-rb-unbuffered', 'proxy-file-rb', 'proxy-bytesio', 'namedtemp-w+b', 'spooled-w+b',
                     'spooled-w+b-rolled', 'gzip-rb', 'mmap')
WRAP_MODES = tuple(m for pair in zip(WRAP_TEXT_MODES, WRAP_BINARY_MODES) for m in pair) + WRAP_BINARY_MODES[len(WRAP_TEXT_MODES):]
WRAP_WRITTEN_MODES = tuple(m for m in WRAP_MODES if m.startswith(('namedtemp', 'spooled')))    # content written
                                                                                # through the object, cursor at the end
TEXT_MODES = ('file-text', 'textio-bytesio', 'file-text-w+-unflushed', 'file-text-a+-unflushed',
              'file-text-r+-unflushed', 'textio-bytesio-unflushed', 'file-text-partly-read') + WRAP_TEXT_MODES


class FileProxy:
    """A user-written file wrapper (not an io class): every attribute is the wrapped file's."""

    def __init__(self, wrapped):
        self._wrapped = wrapped

    def __getattr__(self, name):
        return getattr(self._wrapped, name)

    def __iter__(self):
        return iter(self._wrapped)


def _closer(*objs):
    """Close the wrapper (it may complain that its stream was detached) and then the raw objects underneath."""
    def close():
        for o in objs:
            try:
                o.close()
            except Exception:
                pass
    return close


def _raw_of(f):
    """The innermost io object of a TextIOWrapper / Buffered* / raw file (the one that owns the descriptor)."""
    for _ in range(4):
        nxt = getattr(f, 'buffer', None) or getattr(f, 'raw', None)
        if nxt is None:
            break
        f = nxt
    return f


def open_wrapped(mode, data, path):
    """Returns (file object that is not an io class, closer) for the modes in WRAP_MODES."""
    if mode == 'codecs-open-text':
        f = codecs.open(path, 'r', encoding='utf-8')            # a codecs.StreamReaderWriter
        return f, _closer(f, _raw_of(f.stream))
    if mode in ('proxy-file-text', 'proxy-file-rb', 'proxy-file-rb-unbuffered'):
        inner = (open(path, 'r', encoding='utf-8') if mode == 'proxy-file-text' else
                 open(path, 'rb', buffering=0 if mode.endswith('unbuffered') else -1))
        return FileProxy(inner), _closer(_raw_of(inner))
    if mode in ('proxy-textio-bytesio', 'proxy-bytesio'):
        b = io.BytesIO(data)
        return FileProxy(io.TextIOWrapper(b, encoding='utf-8') if mode == 'proxy-textio-bytesio' else b), _closer(b)
    if mode in ('gzip-rb', 'gzip-rt'):
        zpath = path[:-len('.dat')] + '-z.dat'
        with gzip.open(zpath, 'wb', compresslevel=1) as g:
            g.write(data)
        raw = open(zpath, 'rb')
        f = gzip.GzipFile(fileobj=raw, mode='rb')
        if mode == 'gzip-rt':
            return io.TextIOWrapper(f, encoding='utf-8'), _closer(f, raw)
        return f, _closer(f, raw)
    if mode == 'mmap':
        if not data:
            b = io.BytesIO(data)
            return b, _closer(b)
        with open(path, 'rb') as g:
            f = mmap.mmap(g.fileno(), 0, access=mmap.ACCESS_READ)
        return f, _closer(f)
    text = mode in WRAP_TEXT_MODES
    kw = {'encoding': 'utf-8', 'newline': ''} if text else {}
    if mode.startswith('namedtemp'):
        f = tempfile.NamedTemporaryFile('w+' if text else 'w+b', dir=os.path.dirname(path), suffix='.dat', **kw)
        raw = _raw_of(f.file)
    elif mode.startswith('spooled'):
        f = tempfile.SpooledTemporaryFile(max_size=0, mode='w+' if text else 'w+b', dir=os.path.dirname(path),
                                          suffix='.dat', **kw)
        raw = None
    else:
        raise AssertionError(mode)
    f.write(data.decode('utf-8') if text else data)
    if raw is None:
        if mode.endswith('-rolled'):
            f.rollover()                                        # from now on a real (anonymous) file on disk
        raw = _raw_of(f._file)
    return f, _closer(f, raw)


def _quiet_unraisable(unraisable):
    pass


def open_mode(mode, data, path):
    """Returns (file object to hand to reverse_iter_lines, closer)."""
    if mode == 'bytesio':
        f = io.BytesIO(data)
        return f, f.close
    if mode == 'textio-bytesio':
        b = io.BytesIO(data)
        return io.TextIOWrapper(b, encoding='utf-8'), b.close
    if mode == 'file-rb':
        f = open(path, 'rb')
        return f, f.raw.close
    if mode == 'file-rb-unbuffered':
        f = open(path, 'rb', buffering=0)
        return f, f.close
    if mode == 'file-text':
        f = open(path, 'r', encoding='utf-8')
        return f, f.buffer.raw.close
    if mode == 'file-text-partly-read':
        f = open(path, 'r', encoding='utf-8', newline='')
        f.read(1)                               # the wrapper now holds a decoded read-ahead chunk
        return f, f.buffer.raw.close
    if mode in WRAP_MODES:
        return open_wrapped(mode, data, path)
    if mode in REV_WRITTEN_MODES:
        # the first half of the characters is in the file already, the second half is written through the object and
        # not flushed (w+: everything is pending).  newline='' : no translation in either direction.
        text = data.decode('utf-8')
        path = path[:-len('.dat')] + '-w.dat'            # the other kinds keep reading the complete file at `path`
        cut = 0 if mode in ('file-text-w+-unflushed', 'textio-bytesio-unflushed') else len(text) // 2
        old, new = text[:cut], text[cut:]
        if mode == 'textio-bytesio-unflushed':
            b = io.BytesIO()
            f = io.TextIOWrapper(b, encoding='utf-8', newline='')
            f.write(new)
            return f, b.close
        if mode != 'file-text-w+-unflushed':
            with open(path, 'wb') as g:
                g.write(old.encode('utf-8'))
        if mode == 'file-r+b-unflushed':
            f = open(path, 'r+b')
            f.seek(0, os.SEEK_END)
            f.write(new.encode('utf-8'))
            return f, f.close
        f = open(path, mode[len('file-text-'):-len('-unflushed')], encoding='utf-8', newline='')
        if mode == 'file-text-r+-unflushed':
            f.seek(0, os.SEEK_END)
        f.write(new)
        return f, f.buffer.close
    raise AssertionError(mode)


def call_reverse(jsonutils, mode, data, path, blocksize, preseek):
    f, closer = open_mode(mode, data, path)
    try:
        if not preseek and mode not in REV_WRITTEN_MODES and mode not in WRAP_WRITTEN_MODES:
            f.seek(0, os.SEEK_END)          # "the file cursor is already in position ... at the end of the file"
        # (a file that has just been written to has its cursor at the end; seeking would flush the pending lines)
        kw = {}
        if blocksize is not None:
            kw['blocksize'] = blocksize
        if not preseek:
            kw['preseek'] = False
        try:
            with deadline():
                it = jsonutils.reverse_iter_lines(f, **kw)
        except Hang:
            return ('hang', 'no result')
        except Exception as e:
            return ('exc', type(e).__name__)
        return drain(it, limit=max(ITEM_LIMIT, len(data) + 2))      # a file of n bytes has at most n + 1 lines
    finally:
        # a tempfile object whose stream was detached complains in its __del__: drop it here, quietly
        hook, sys.unraisablehook = sys.unraisablehook, _quiet_unraisable
        try:
            try:
                closer()
            except Exception:
                pass
            f = it = closer = None
        finally:
            sys.unraisablehook = hook


def rev_expected(content, textmode):
    """The lines separated by \\n or \\r\\n, last first.  Returns the list of acceptable results."""
    if textmode:
        lines = content.replace('\r\n', '\n').split('\n')[::-1]
        empty = ''
    else:
        lines = content.encode('utf-8').replace(b'\r\n', b'\n').split(b'\n')[::-1]
        empty = b''
    if not content:
        return [[], [empty]]        # the statement does not say whether an empty file has zero or one (empty) line
    return [lines]


def classify_rev(content, textmode, obs, accept):
    if obs[0] != 'ok':
        return 'no termination' if obs[0] == 'hang' else 'raised ' + obs[1]
    got = obs[1]
    typ = str if textmode else bytes
    if any(not isinstance(x, typ) for x in got):
        return 'item type (str for text-mode files, bytes for binary ones)'
    brk = ('\n', '\r') if textmode else (b'\n', b'\r')
    if any(b in x for x in got for b in brk):
        return 'item contains a line break'
    sep = '\n' if textmode else b'\n'
    whole = content.replace('\r\n', '\n') if textmode else content.encode('utf-8').replace(b'\r\n', b'\n')
    if sep.join(reversed(got)) != whole:
        return 'lines joined with LF differ from the content'
    return 'number of lines'        # only possible for the empty file / result [] vs ['']


def rev_blocksizes(nbytes):
    return list(range(1, nbytes + 2)) + [None]        # None = the default (4096)


def rev_tags(content):
    tags = []
    if content[:1] == '\n' or content[:2] == '\r\n':
        tags.append('starts_with_line_break')
    if content[-1:] == '\n':
        tags.append('ends_with_line_break')
    if '\r\n' in content:
        tags.append('crlf')
    if any(ord(c) > 127 for c in content):
        tags.append('multibyte')
    return tags


def check_rev_content(jsonutils, content, path, modes, t, blocksizes=None, part='reverse_iter_lines'):
    data = content.encode('utf-8')
    if any(m.startswith('file') or m in WRAP_MODES for m in modes):
        with open(path, 'wb') as f:
            f.write(data)
    has_break = '\n' in content
    for mode in modes:
        textmode = mode in TEXT_MODES
        accept = rev_expected(content, textmode)
        first = None
        for preseek in ((True,) if mode == 'file-text-partly-read' else (True, False)):
            for bs in (rev_blocksizes(len(data)) if blocksizes is None else blocksizes):
                case = {'part': part, 'content': content, 'mode': mode, 'blocksize': bs, 'preseek': preseek}
                if part == 'reverse_iter_lines-block-edges':
                    case.update(content=None, **edge_case(content))
                elif part == 'reverse_iter_lines-large-files':
                    case.update(content=None, **_LARGE_CURRENT)
                t.count(nontrivial=has_break, sample=case if has_break and bs and 1 < bs < len(data) else None)
                obs = call_reverse(jsonutils, mode, data, path, bs, preseek)
                if obs[0] == 'ok' and obs[1] in accept:
                    if first is None:
                        first = obs[1]
                    elif obs[1] != first:
                        t.bad('C19|fn:reverse_iter_lines|result depends on blocksize', case, first, list(obs),
                              tags=rev_tags(content) + [mode])
                    continue
                big = len(data) > 200
                t.bad('C19|fn:reverse_iter_lines|' + classify_rev(content, textmode, obs, accept), case,
                      '<content.split(LF) reversed>' if big else accept[0] if len(accept) == 1 else {'any of': accept},
                      [obs[0], '<%d items>' % len(obs[1])] if big and obs[0] == 'ok' else list(obs),
                      tags=rev_tags(content) + [mode])
                if obs[0] == 'hang':
                    saw_hang(t)
                    return


def state_blocksizes(nbytes):
    """For the file-state kinds (the block size is explored exhaustively with the plain kinds): the smallest blocks,
    the file size -1 / exact / +1, and the default."""
    return sorted(b for b in {1, 2, 3, nbytes - 1, nbytes, nbytes + 1} if b >= 1) + [None]


def rev_shard(arg):
    from boltons import jsonutils
    scratch, n, prefix, modes = arg
    few = tuple(modes) in (REV_STATE_MODES, REV_STATE_MODES_QUICK, WRAP_MODES)
    t = inputs.Tally()
    path = os.path.join(scratch, 'rev-%d.dat' % os.getpid())
    fds0 = len(os.listdir('/proc/self/fd')) if os.path.isdir('/proc/self/fd') else None
    head = ''.join(prefix)
    for rest in itertools.product(REV_TOKENS, repeat=n - len(prefix)):
        if saw_hang():
            t.add('cut_short_after_hang')
            break
        content = head + ''.join(rest)
        check_rev_content(jsonutils, content, path, modes, t,
                          blocksizes=state_blocksizes(len(content.encode('utf-8'))) if few else None)
    if fds0 is not None:
        import gc
        gc.collect()
        leaked = len(os.listdir('/proc/self/fd')) - fds0
        if leaked > 0:
            t.add('harness_open_files_left', leaked)
    return t


def rev_shards(scratch, maxtok, modes):
    out = []
    for n in range(0, maxtok + 1):
        depth = 0 if n < 3 else (1 if n == 3 else 2)
        for prefix in itertools.product(REV_TOKENS, repeat=depth):
            out.append((scratch, n, prefix, modes))
    return out


# ---------------------------------------------------------------------------------------------------------------
# part 2d: encodings other than UTF-8.  Text-mode files opened with a single-byte encoding (their characters >= 0x80 are
# not valid UTF-8 on their own - or, worse, pairs of them are: latin-1 'A-tilde copyright' is the UTF-8 form of e-acute)
# and with 'utf-8-sig' (the file starts with a BOM that is not part of its text), and binary objects handed over together
# with an explicit encoding= argument (the lines then come back as str decoded with it).  Same oracle on the *text*.

ENC_TOKENS = {
    'latin-1': ('a', '\n', '\r\n', '\xe9', '\xc3', '\xa9'),
    'cp1252': ('a', '\n', '\r\n', '\u20ac', '\xc3', '\xa9'),          # the euro sign is the byte 0x80 there
    'utf-8-sig': ('a', '\n', '\r\n', '\xe9', '\u2028', ' '),
}
ENCODINGS = tuple(ENC_TOKENS)
ENC_MODES = ('file-text', 'textio-bytesio', 'bytesio+encoding', 'file-rb+encoding')


def call_reverse_enc(jsonutils, mode, enc, data, path, blocksize, preseek):
    kw = {}
    if mode == 'file-text':
        f = open(path, 'r', encoding=enc)
        closer = f.buffer.raw.close
    elif mode == 'textio-bytesio':
        b = io.BytesIO(data)
        f, closer = io.TextIOWrapper(b, encoding=enc), b.close
    elif mode == 'bytesio+encoding':
        f = io.BytesIO(data)
        closer, kw['encoding'] = f.close, enc
    elif mode == 'file-rb+encoding':
        f = open(path, 'rb')
        closer, kw['encoding'] = f.raw.close, enc
    else:
        raise AssertionError(mode)
    try:
        if not preseek:
            f.seek(0, os.SEEK_END)
            kw['preseek'] = False
        if blocksize is not None:
            kw['blocksize'] = blocksize
        try:
            with deadline():
                it = jsonutils.reverse_iter_lines(f, **kw)
        except Hang:
            return ('hang', 'no result')
        except Exception as e:
            return ('exc', type(e).__name__)
        return drain(it, limit=max(ITEM_LIMIT, len(data) + 2))
    finally:
        try:
            closer()
        except Exception:
            pass


def check_enc_case(jsonutils, case, path, write=True):
    """-> (what disagreed or None, acceptable results, observed)"""
    content, enc = case['content'], case['encoding']
    data = content.encode(enc)                       # 'utf-8-sig' prepends the BOM
    if write:
        with open(path, 'wb') as f:
            f.write(data)
    accept = rev_expected(content, True)
    obs = call_reverse_enc(jsonutils, case['mode'], enc, data, path, case['blocksize'], case['preseek'])
    if obs[0] == 'ok' and obs[1] in accept:
        return None, accept, obs
    return classify_rev(content, True, obs, accept), accept, obs


ENC_JSONL_MENU = ('{"k": "\xe9"}', '', '["\xc3\xa9", 1]', '{corrupt')


def check_enc_jsonl_case(jsonutils, case, path):
    lines = tuple(l.replace('\xe9', '\u20ac') if case['encoding'] == 'cp1252' else l for l in case['lines'])
    data = jsonl_content(lines, '\n', case['trailing']).encode(case['encoding'])
    with open(path, 'wb') as f:
        f.write(data)
    exp = jsonl_expected(lines, case['ignore_errors'], case['reverse'])
    obs = run_jsonl(jsonutils, 'file-text:' + case['encoding'], data, path, case['ignore_errors'], case['reverse'],
                    case['blocksize'])
    if obs == ('ok', exp):
        return None, exp, obs
    return ('C19|cls:JSONLIterator|%s|%s' % ('reverse' if case['reverse'] else 'forward', gap_what(obs)), exp, obs)


def enc_shard(arg):
    from boltons import jsonutils
    scratch, enc, n, maxlines = arg
    t = inputs.Tally()
    path = os.path.join(scratch, 'enc-%d.dat' % os.getpid())
    if n == 'jsonl':
        for k in range(maxlines + 1):
            for lines in itertools.product(ENC_JSONL_MENU, repeat=k):
                for trailing in ((True,) if not lines else (False, True)):
                    for ignore_errors in (False, True):
                        for reverse, bs in ((False, None), (True, None), (True, 3)):
                            if saw_hang():
                                t.add('cut_short_after_hang')
                                return t
                            case = {'part': 'jsonl-encodings', 'lines': list(lines), 'trailing': trailing,
                                    'encoding': enc, 'ignore_errors': ignore_errors, 'reverse': reverse,
                                    'blocksize': bs}
                            nontrivial = any(ord(c) > 127 for l in lines for c in l)
                            t.count(nontrivial=nontrivial, sample=case if nontrivial and reverse else None)
                            sig, exp, obs = check_enc_jsonl_case(jsonutils, case, path)
                            if sig:
                                t.bad(sig, case, exp, list(obs), tags=['file-text', 'encoding_' + enc,
                                                                       'ignore_errors' if ignore_errors else 'strict'])
                                if obs[0] == 'hang':
                                    saw_hang(t)
                                    return t
        return t
    for toks in itertools.product(ENC_TOKENS[enc], repeat=n):
        content = ''.join(toks)
        nbytes = len(content.encode(enc))
        nontrivial = '\n' in content and any(ord(c) > 127 for c in content)
        first = True
        for mode in ENC_MODES:
            for preseek in (True, False):
                for bs in rev_blocksizes(nbytes):
                    if saw_hang():
                        t.add('cut_short_after_hang')
                        return t
                    case = {'part': 'reverse_iter_lines-encodings', 'content': content, 'encoding': enc, 'mode': mode,
                            'blocksize': bs, 'preseek': preseek}
                    t.count(nontrivial=nontrivial, sample=case if nontrivial and bs and bs > 1 else None)
                    what, accept, obs = check_enc_case(jsonutils, case, path, write=first)
                    first = False
                    if what:
                        t.bad('C19|fn:reverse_iter_lines|' + what, case,
                              accept[0] if len(accept) == 1 else {'any of': accept}, list(obs),
                              tags=[mode, 'encoding_' + enc])
                        if obs[0] == 'hang':
                            saw_hang(t)
                            return t
    return t


def enc_shards(scratch, maxtok, maxlines):
    return ([(scratch, enc, n, maxlines) for n in range(maxtok + 1) for enc in ENCODINGS]
            + [(scratch, enc, 'jsonl', maxlines) for enc in ENCODINGS])


# ---------------------------------------------------------------------------------------------------------------
# part 2c: files larger than the *default* block (the module constant, found by introspection) with every byte of a
# repeated pattern falling on a block edge.  Directed: the sizes are a sample.

EDGE_PATTERNS = ('\u00e9\r\n', 'a\n\n', '\u2028\n', '\U0001f600 \r\n\r\n')
_EDGE_CURRENT = {}


def edge_block(jsonutils):
    b = getattr(jsonutils, 'DEFAULT_BLOCKSIZE', None)
    return b if isinstance(b, int) and 16 <= b <= 2 ** 20 else 4096


def edge_content(pattern, shift, block):
    return pattern * (2 * block // len(pattern.encode('utf-8')) + 3) + 'b' * shift


def edge_case(content):
    return dict(_EDGE_CURRENT)


def edge_shard(arg):
    from boltons import jsonutils
    scratch, pi, modes = arg
    t = inputs.Tally()
    path = os.path.join(scratch, 'edge-%d.dat' % os.getpid())
    block = edge_block(jsonutils)
    pattern = EDGE_PATTERNS[pi]
    for shift in range(len(pattern.encode('utf-8')) + 1):
        if saw_hang():
            t.add('cut_short_after_hang')
            break
        _EDGE_CURRENT.clear()
        _EDGE_CURRENT.update(pattern=pattern, shift=shift, block=block)
        check_rev_content(jsonutils, edge_content(pattern, shift, block), path, modes, t,
                          blocksizes=(None, block, block - 1, block + 1, 2 * block),
                          part='reverse_iter_lines-block-edges')
    return t


# ---------------------------------------------------------------------------------------------------------------
# part 2b: the multi-byte characters.  One representative pair per UTF-8 lead byte, found with the stdlib decoder.

MB_TEMPLATES = ('X', 'X\n', '\nX', 'X\na', 'a\nX', 'Xa\naX', 'X\r\nX', 'XX\nX\n')


def _lead_extremes(lead):
    """Lowest and highest code point whose UTF-8 encoding starts with the byte `lead` (strict stdlib decoder: no
    overlong forms, no surrogates, nothing beyond U+10FFFF)."""
    ncont = 1 if lead < 0xE0 else (2 if lead < 0xF0 else 3)
    out = []
    for firsts, fill in ((range(0x80, 0xC0), 0x80), (range(0xBF, 0x7F, -1), 0xBF)):
        for c1 in firsts:
            try:
                ch = bytes([lead, c1] + [fill] * (ncont - 1)).decode('utf-8')
            except UnicodeDecodeError:
                continue
            if ch not in out:
                out.append(ch)
            break
    return out


MB_LEADS = tuple(range(0xC2, 0xF5))
# characters that str.splitlines() / \s-style patterns break at, but that do not separate the "\n- or \r\n-separated
# lines" of the statement (a lone \r stays outside the domain); explored with the same templates
REV_LOOKALIKES = ('\x0b', '\x0c', '\x1c', '\x1d', '\x1e', '\x85', '\u2028', '\u2029')


def mb_shard(arg):
    from boltons import jsonutils
    scratch, lead, modes = arg
    t = inputs.Tally()
    path = os.path.join(scratch, 'mb-%d.dat' % os.getpid())
    chars = REV_LOOKALIKES if lead == 'lookalikes' else _lead_extremes(lead)
    for ch in chars:
        for tpl in MB_TEMPLATES:
            if saw_hang():
                t.add('cut_short_after_hang')
                return t
            check_rev_content(jsonutils, tpl.replace('X', ch), path, modes, t)
    t.add('characters', len(chars))
    return t


# ---------------------------------------------------------------------------------------------------------------
# part 3: JSONLIterator

LONG_NAME = '<5000-byte object>'
LONG_LINE = '{"k": "%s"}' % ('x' * (5000 - len('{"k": ""}')))
assert len(LONG_LINE) == 5000
BADUTF = '{"b": "\udcff\udcfe"}'     # stands for a line holding the bytes ff fe: not valid UTF-8 (binary sources only)
JSONL_MENU = ('{}', '{"1": 1}', '', '[1, "\u00e9"]', '{corrupt', '   ', LONG_NAME, BADUTF, 'null')     # null: a record that is None
BLANK = ('', '   ')
JSONL_KINDS = ('file-text', 'file-rb', 'bytesio')
JSONL_WRAP_KINDS = ('codecs-open-text', 'proxy-file-text', 'proxy-file-rb', 'namedtemp-w+', 'spooled-w+-rolled', 'spooled-w+b')


def line_text(tok):
    return LONG_LINE if tok == LONG_NAME else tok


def jsonl_content(lines, eol, trailing):
    return eol.join(line_text(l) for l in lines) + (eol if trailing else '')


def jsonl_expected(lines, ignore_errors, reverse):
    """Event list: objects, ended by the marker 'ValueError' if a corrupt line is met without ignore_errors."""
    out = []
    seq = [l for l in lines if l.strip()]
    if reverse:
        seq = seq[::-1]
    for l in seq:
        try:
            if l == BADUTF:
                raise ValueError('undecodable bytes')
            out.append(json.loads(line_text(l)))
        except ValueError:
            if ignore_errors:
                continue
            out.append('<ValueError>')
            break
    return out


def open_jsonl(kind, data, path):
    if kind == 'bytesio':
        f = io.BytesIO(data)
        return f, f.close
    if kind == 'file-rb':
        f = open(path, 'rb')
        return f, f.raw.close
    if kind == 'file-text':
        f = open(path, 'r', encoding='utf-8')
        return f, f.buffer.raw.close
    if kind.startswith('file-text:'):
        f = open(path, 'r', encoding=kind.split(':', 1)[1])
        return f, f.buffer.raw.close
    if kind == 'textio-bytesio':
        b = io.BytesIO(data)
        return io.TextIOWrapper(b, encoding='utf-8'), b.close
    if kind in WRAP_MODES:
        f, closer = open_wrapped(kind, data, path)
        if kind in WRAP_WRITTEN_MODES:
            f.seek(0)                   # written through the object: back to the start, as a reader would
        return f, closer
    raise AssertionError(kind)


def run_jsonl(jsonutils, kind, data, path, ignore_errors, reverse, blocksize, protocol='__next__', limit=None):
    """Drive a JSONLIterator to its end (or first exception).  blocksize None = native; otherwise the module-global
    reverse_iter_lines is wrapped so that the iterator's internal 4096 is replaced by the scaled value.
    protocol '__next__': next(it);  'next': the documented method iter(it).next()."""
    f, closer = open_jsonl(kind, data, path)
    orig = jsonutils.reverse_iter_lines
    if reverse and blocksize is not None:
        def scaled(file_obj, blocksize=None, preseek=True, _orig=orig, _bs=blocksize, **kw):
            return _orig(file_obj, blocksize=_bs, preseek=preseek, **kw)
        jsonutils.reverse_iter_lines = scaled
    out = []
    limit = ITEM_LIMIT if limit is None else limit
    try:
        try:
            with deadline():
                it = jsonutils.JSONLIterator(f, ignore_errors=ignore_errors, reverse=reverse)
                if protocol == 'next':
                    it = iter(it)
                for _ in range(limit):
                    try:
                        out.append(it.next() if protocol == 'next' else next(it))
                    except StopIteration:
                        break
                    except ValueError:
                        out.append('<ValueError>')
                        break
                else:
                    return ('hang', 'more than %d items' % limit)
        except Hang:
            return ('hang', 'no result')
        except Exception as e:
            return ('exc', type(e).__name__, out)
        return ('ok', out)
    finally:
        jsonutils.reverse_iter_lines = orig
        hook, sys.unraisablehook = sys.unraisablehook, _quiet_unraisable      # see call_reverse
        try:
            try:
                closer()
            except Exception:
                pass
            f = it = closer = None
        finally:
            sys.unraisablehook = hook


def jsonl_blocksizes(nbytes, quick):
    """None = native 4096 (smaller and larger than the files thanks to the 5000-byte line); scaled values:
    3 (inside every line and inside the 2-byte character), and the file size -1 / exact / +1."""
    out = [None, 3]
    for b in (nbytes - 1, nbytes, nbytes + 1):
        if b >= 1 and b not in out and b != 4096:
            out.append(b)
    if not quick and 1 not in out and nbytes < 1000:     # block size 1 on a 5000-byte line is quadratic: skipped
        out.append(1)
    return out


def jsonl_short(obj):
    """Keep violation records small: abbreviate the 5000-byte object."""
    if isinstance(obj, list):
        return [jsonl_short(o) for o in obj]
    if isinstance(obj, dict) and len(obj.get('k', '')) > 100:
        return LONG_NAME
    return obj


def check_jsonl_file(jsonutils, lines, eol, trailing, path, kinds, quick, t):
    content = jsonl_content(lines, eol, trailing)
    data = content.encode('utf-8', 'surrogateescape')
    with open(path, 'wb') as f:
        f.write(data)
    nontrivial = len(lines) >= 2 and any(l in BLANK or l in ('{corrupt', BADUTF) for l in lines)
    for kind in kinds:
        if (kind == 'file-text' or kind in WRAP_TEXT_MODES) and BADUTF in lines:
            continue        # a text-mode file fails in its own decoder, before JSONLIterator sees the line
        for ignore_errors in (False, True):
            configs = [(False, None)] + [(True, bs) for bs in jsonl_blocksizes(len(data), quick)]
            for reverse, bs in configs:
                case = {'part': 'jsonl', 'lines': list(lines), 'eol': eol, 'trailing': trailing, 'kind': kind,
                        'ignore_errors': ignore_errors, 'reverse': reverse, 'blocksize': bs}
                t.count(nontrivial=nontrivial, sample=case if nontrivial and reverse else None)
                exp = jsonl_expected(lines, ignore_errors, reverse)
                obs = run_jsonl(jsonutils, kind, data, path, ignore_errors, reverse, bs)
                if obs == ('ok', exp):
                    continue
                if obs[0] == 'ok':
                    what = 'objects'
                elif obs[0] == 'hang':
                    what = 'no termination'
                else:
                    what = 'raised ' + obs[1]
                tags = [kind, 'ignore_errors' if ignore_errors else 'strict']
                if lines and lines[0] in BLANK:
                    tags.append('starts_with_blank_line')
                t.bad('C19|cls:JSONLIterator|%s|%s' % ('reverse' if reverse else 'forward', what), case,
                      jsonl_short(exp), jsonl_short(list(obs)), tags=tags)
                if obs[0] == 'hang':
                    saw_hang(t)
                    return


def jsonl_line_lists(maxlines):
    for n in range(0, maxlines + 1):
        yield from itertools.product(JSONL_MENU, repeat=n)


def jsonl_shard(arg):
    from boltons import jsonutils
    scratch, n, prefix, eols, kinds, quick = arg
    t = inputs.Tally()
    path = os.path.join(scratch, 'jsonl-%d.dat' % os.getpid())
    for rest in itertools.product(JSONL_MENU, repeat=n - len(prefix)):
        if saw_hang():
            t.add('cut_short_after_hang')
            break
        lines = tuple(prefix) + rest
        for eol in eols:
            for trailing in (False, True):
                if not lines and trailing:
                    continue                      # == one blank line without trailing eol
                if lines and not trailing and lines[-1] == '':
                    continue                      # == the same lines minus the last, with trailing eol
                check_jsonl_file(jsonutils, lines, eol, trailing, path, kinds, quick, t)
    return t


def jsonl_shards(scratch, maxlines, eols, kinds, quick):
    out = []
    for n in range(0, maxlines + 1):
        depth = 0 if n < 2 else (1 if n == 2 else 2)
        for prefix in itertools.product(JSONL_MENU, repeat=depth):
            out.append((scratch, n, prefix, eols, kinds, quick))
    return out


# ---------------------------------------------------------------------------------------------------------------
## part 3b: long runs of skipped lines ("whatever the file size").  Directed: the sizes are a sample of the class.

GAP_KINDS = (            # name, the lines repeated to fill a gap, needs ignore_errors, binary sources only
    ('blank', ('',), False, False),
    ('whitespace', ('   ',), False, False),
    ('corrupt', ('{corrupt',), True, False),
    ('mixed', ('', '{corrupt', '   '), True, False),
    ('undecodable', (BADUTF,), True, True),
)
GAP_OBJECTS = ('{"1": 1}', '[1, "\u00e9"]')


def gap_sizes(quick=True):
    """Run lengths around powers of two and around the interpreter's recursion limit (read here, in the process that
    makes the calls), smallest first."""
    import sys
    r = sys.getrecursionlimit()
    sizes = {2 ** k + d for k in (8, 10) for d in (-1, 0, 1)} | {r - 1, r, r + 1, 2 * r + 1, 2 ** 12 + 1}
    if not quick:
        sizes |= {2 ** k + d for k in (12, 14) for d in (-1, 0, 1)} | {10 * r + 1}
    return sorted(sizes)


def gap_lines(kindname, n):
    unit = dict((k[0], k[1]) for k in GAP_KINDS)[kindname]
    gap = tuple(unit[i % len(unit)] for i in range(n))
    return gap + (GAP_OBJECTS[0],) + gap + (GAP_OBJECTS[1],) + gap


def gap_blocksizes(nbytes):
    return [None, nbytes - 1]          # native 4096 (much smaller than the file) and one block for (almost) the whole file


def gap_what(obs):
    return 'objects' if obs[0] == 'ok' else ('no termination' if obs[0] == 'hang' else 'raised ' + obs[1])


def run_gap_case(jsonutils, case, lines, data, path):
    """One recorded configuration on the file already written to path -> (sig or None, expected, observed)."""
    exp = jsonl_expected(lines, case['ignore_errors'], case['reverse'])
    obs = run_jsonl(jsonutils, case['kind'], data, path, case['ignore_errors'], case['reverse'], case['blocksize'])
    if obs == ('ok', exp):
        return None, exp, obs
    return ('C19|cls:JSONLIterator|%s|%s' % ('reverse' if case['reverse'] else 'forward', gap_what(obs)), exp, obs)


def write_gap_file(kindname, n, path):
    lines = gap_lines(kindname, n)
    data = jsonl_content(lines, '\n', True).encode('utf-8', 'surrogateescape')
    with open(path, 'wb') as f:
        f.write(data)
    return lines, data


def check_gap_file(jsonutils, kindname, n, path, t):
    kind_row = [k for k in GAP_KINDS if k[0] == kindname][0]
    lines, data = write_gap_file(kindname, n, path)
    for kind in JSONL_KINDS:
        if kind == 'file-text' and kind_row[3]:
            continue        # a text-mode file fails in its own decoder, before JSONLIterator sees the line
        for ignore_errors in ((True,) if kind_row[2] else (False, True)):
            for reverse, bs in [(False, None)] + [(True, b) for b in gap_blocksizes(len(data))]:
                case = {'part': 'jsonl-long-gaps', 'gap': kindname, 'n': n, 'kind': kind,
                        'ignore_errors': ignore_errors, 'reverse': reverse, 'blocksize': bs}
                t.count(nontrivial=True, sample=case if reverse else None)
                sig, exp, obs = run_gap_case(jsonutils, case, lines, data, path)
                if sig is None:
                    continue
                t.bad(sig, case, jsonl_short(exp), jsonl_short(list(obs)),
                      tags=[kind, 'ignore_errors' if ignore_errors else 'strict', 'long_run_of_skipped_lines'])
                if obs[0] == 'hang':
                    saw_hang(t)
                    return


def gap_shard(arg):
    from boltons import jsonutils
    scratch, kindname, which, quick = arg
    t = inputs.Tally()
    path = os.path.join(scratch, 'gap-%d.dat' % os.getpid())
    sizes = gap_sizes(quick)
    for n in sizes[which::GAP_SPLIT]:
        if saw_hang():
            t.add('cut_short_after_hang')
            break
        check_gap_file(jsonutils, kindname, n, path, t)
    return t


GAP_SPLIT = 3


def gap_shards(scratch, quick):
    return [(scratch, k[0], which, quick) for which in range(GAP_SPLIT) for k in GAP_KINDS]


# ---------------------------------------------------------------------------------------------------------------
# part 2e / 3d: large files ("whatever the file size").  Directed: file sizes of exactly 2**k - 1, 2**k, 2**k + 1 bytes
# and around every integer constant of the module under test that looks like a size threshold (found by introspection).
# On-disk files, unbuffered ones and in-memory objects; mixed \r\n / \n breaks, empty lines, 2- and 3-byte characters.

LARGE_POWERS_QUICK = (16, 20, 22)
LARGE_POWERS_THOROUGH = (16, 18, 20, 22, 24)
LARGE_LONG_LINE_MAX = 2 ** 20           # the one-long-line variant costs (size / blocksize)**2 / 2 block copies
_LARGE_CURRENT = {}


def module_size_constants(jsonutils):
    """Integer module constants between 16 KiB and 8 MiB: candidates for 'files at least this big are read otherwise'."""
    out = set()
    for name, v in sorted(vars(jsonutils).items()):
        if type(v) is int and not name.startswith('__') and 2 ** 14 <= v <= 2 ** 23:
            out.add(v)
    return sorted(out)


def large_sizes(jsonutils, quick):
    """-> sorted list of (nbytes, variant)."""
    out = set()
    centres = [2 ** k for k in (LARGE_POWERS_QUICK if quick else LARGE_POWERS_THOROUGH)] + module_size_constants(jsonutils)
    for c in centres:
        out |= {(c - 1, 'head'), (c, 'tail'), (c, 'head'), (c + 1, 'tail')}
        if c <= LARGE_LONG_LINE_MAX:
            out.add((c, 'long'))
    return sorted(out)


def large_content(nbytes, variant):
    """A text of exactly nbytes UTF-8 bytes.  'head' / 'tail': numbered lines of 7..260 bytes, every 11th empty, ended by
    \r\n (every third) or \n, brought to the exact size with a run of 'b' at the start (the text then ends with a line
    break) or at the end (it does not).  'long': a one-character line, one line that fills the file, a final \r\n."""
    if variant == 'long':
        k = (nbytes - 5) // 2
        return 'a\r\n' + '\u00e9' * k + 'b' * ((nbytes - 5) % 2) + '\r\n'
    pieces, total, i = [], 0, 0
    while True:
        line = '' if i % 11 == 10 else '%06d caf\u00e9 \u20ac %s' % (i, 'x' * (i * 37 % 240))
        piece = line + ('\r\n' if i % 3 == 0 else '\n')
        size = len(piece) + (3 if line else 0)          # e-acute: 2 bytes, the euro sign: 3
        if total + size > nbytes:
            break
        pieces.append(piece)
        total += size
        i += 1
    pad = 'b' * (nbytes - total)
    text = pad + ''.join(pieces) if variant == 'head' else ''.join(pieces) + pad
    return text


def large_blocksizes(nbytes):
    return (None, 2 ** 16 + 1, nbytes + 1)


def large_shard(arg):
    from boltons import jsonutils
    scratch, nbytes, variant, modes = arg
    t = inputs.Tally()
    if saw_hang():
        t.add('cut_short_after_hang')
        return t
    path = os.path.join(scratch, 'large-%d.dat' % os.getpid())
    content = large_content(nbytes, variant)
    if len(content.encode('utf-8')) != nbytes:
        raise AssertionError('harness: large_content(%d, %r) has another size' % (nbytes, variant))
    _LARGE_CURRENT.clear()
    _LARGE_CURRENT.update(nbytes=nbytes, variant=variant)
    check_rev_content(jsonutils, content, path, modes, t,
                      blocksizes=(None,) if variant == 'long' else large_blocksizes(nbytes),
                      part='reverse_iter_lines-large-files')
    try:
        os.unlink(path)
    except OSError:
        pass
    return t


BIG_JSONL_KINDS = ('file-text', 'file-rb', 'bytesio', 'textio-bytesio')


def big_jsonl_sizes(jsonutils, quick):
    out = set()
    for p in (LARGE_POWERS_QUICK if quick else LARGE_POWERS_THOROUGH):
        out |= ({2 ** p - 1, 2 ** p, 2 ** p + 1} if p == 20 or not quick else {2 ** p + 1})
    for c in module_size_constants(jsonutils):
        out |= {c - 1, c, c + 1}
    return sorted(out)


def big_jsonl_file(nbytes):
    """-> (lines, data): records of 30..450 bytes numbered from 0 (with a 2-byte character and a raw U+2028 inside a
    string), every 7th line blank, every 13th corrupt, ended by \r\n (every fifth) or \n; a first line of spaces brings
    the file to exactly nbytes bytes."""
    lines, eols, total, i = [], [], 0, 0
    while True:
        if i % 7 == 6:
            line = ''
        elif i % 13 == 12:
            line = '{"id": %d, corrupt' % i
        else:
            line = json.dumps({'id': i, 's': 'caf\u00e9 \u2028 ' + 'x' * (i * 53 % 420)}, ensure_ascii=False)
        eol = '\r\n' if i % 5 == 0 else '\n'
        size = len((line + eol).encode('utf-8'))
        if total + size > nbytes:
            break
        lines.append(line)
        eols.append(eol)
        total += size
        i += 1
    pad = nbytes - total
    if pad:
        lines.insert(0, ' ' * (pad - 1))
        eols.insert(0, '\n')
    data = ''.join(l + e for l, e in zip(lines, eols)).encode('utf-8')
    return tuple(lines), data


def run_big_jsonl_case(jsonutils, case, lines, data, path, exp=None):
    if exp is None:
        exp = jsonl_expected(lines, case['ignore_errors'], case['reverse'])
    bs = case['blocksize']
    obs = run_jsonl(jsonutils, case['kind'], data, path, case['ignore_errors'], case['reverse'],
                    len(data) + 1 if bs == 'file size + 1' else bs, limit=len(lines) + 2)
    if obs == ('ok', exp):
        return None, exp, obs
    return ('C19|cls:JSONLIterator|%s|%s' % ('reverse' if case['reverse'] else 'forward', gap_what(obs)), exp, obs)


def big_short(events):
    """Keep violation records small."""
    if isinstance(events, (list, tuple)) and len(events) > 6:
        return ['<%d items>' % len(events), 'first', jsonl_short(list(events[:2])), 'last', jsonl_short(list(events[-2:]))]
    return jsonl_short(list(events)) if isinstance(events, (list, tuple)) else events


def big_jsonl_shard(arg):
    from boltons import jsonutils
    scratch, nbytes = arg
    t = inputs.Tally()
    path = os.path.join(scratch, 'bigjsonl-%d.dat' % os.getpid())
    lines, data = big_jsonl_file(nbytes)
    if len(data) != nbytes:
        raise AssertionError('harness: big_jsonl_file(%d) has another size' % nbytes)
    with open(path, 'wb') as f:
        f.write(data)
    exps = {(ie, rev): jsonl_expected(lines, ie, rev) for ie in (True, False) for rev in (False, True)}
    for kind in BIG_JSONL_KINDS:
        for ignore_errors in (True, False):
            for reverse, bs in ((False, None), (True, None), (True, 'file size + 1')):
                if saw_hang():
                    t.add('cut_short_after_hang')
                    return t
                case = {'part': 'jsonl-large-files', 'nbytes': nbytes, 'kind': kind, 'ignore_errors': ignore_errors,
                        'reverse': reverse, 'blocksize': bs}
                t.count(nontrivial=True, sample=case if reverse else None)
                sig, exp, obs = run_big_jsonl_case(jsonutils, case, lines, data, path, exps[ignore_errors, reverse])
                if sig is None:
                    continue
                t.bad(sig, case, big_short(exp), [obs[0]] + [big_short(x) for x in obs[1:]],
                      tags=[kind, 'ignore_errors' if ignore_errors else 'strict', 'large_file'])
                if obs[0] == 'hang':
                    saw_hang(t)
                    return t
    try:
        os.unlink(path)
    except OSError:
        pass
    return t


# ---------------------------------------------------------------------------------------------------------------
# part 3c: the forms of a corrupt ("undecodable") line.  A catalogue generated from JSON values x textual damages; whether
# a catalogue line is decodable is decided by the stdlib's json.loads (the function the class documents), so damages that
# happen to produce valid JSON ('1' + '1', a padded value) are simply records.

FORM_VALUES = ('{}', '{"1": 1}', '[1, "\u00e9"]', '1', 'null', '"s"', 'true', '-1.5e3', '0', 'false', '""')
FORM_BLANKS = ('\t', ' \t ')                            # blank lines that are not made of spaces only
FORM_DAMAGES = (            # name, function of the value text
    ('doubled', lambda v: v + v),                       # two records run together (a lost newline)
    ('doubled-spaced', lambda v: v + ' ' + v),
    ('doubled-comma', lambda v: v + ',' + v),
    ('then-letter', lambda v: v + 'x'),
    ('then-bracket', lambda v: v + ']'),
    ('then-brace', lambda v: v + '}'),
    ('then-comma', lambda v: v + ','),
    ('then-comment', lambda v: v + ' # c'),
    ('then-open', lambda v: v + ' ['),
    ('cut-last', lambda v: v[:-1]),
    ('cut-first', lambda v: v[1:]),
    ('letter-first', lambda v: 'x' + v),
    ('open-first', lambda v: '[' + v),
    ('wrapped', lambda v: '[' + v + ']'),
    ('padded', lambda v: ' ' + v + ' '),
    ('tab-padded', lambda v: '\t' + v + '\t'),
    ('single-quoted', lambda v: v.replace('"', "'") if '"' in v else "'" + v + "'"),
)
# Characters at which str.splitlines() (or a \s / \v-style pattern) breaks but which are NOT line breaks of a JSON Lines
# file (those are \n and \r\n): a record holding one of them - json.dumps(ensure_ascii=False) leaves U+0085, U+2028
# and U+2029 raw inside strings - is one line in forward mode and must be one line in reverse mode.  (The raw C0
# controls make the line undecodable for json.loads, in both directions alike.)  The character never stands at the
# start or the end of a line, so that what str.strip() takes for blank does not matter.
LOOKALIKES = ('\x85', '\u2028', '\u2029', '\x0b', '\x0c', '\x1c', '\x1d', '\x1e')
LOOKALIKE_TEMPLATES = ('["aXb"]', '{"X": "X"}', '[1,X2]', '["\u00e9XX\u00e9", "X "]')
LOOKALIKE_KINDS = ('file-text', 'file-rb', 'bytesio', 'textio-bytesio')
FORM_OBJ = '{"1": 1}'
FORM_LAYOUTS = (('C',), ('O', 'C', 'O'), ('C', 'O'), ('', 'C', 'C'))       # C = the catalogue line, O = FORM_OBJ
FORM_EOLS = ('\n', '\r\n')
DEEP_NAME = '<nested deeper than json.loads accepts>'
_DEEP = []


def deep_line():
    """'[' * n for the smallest power of two n at which the stdlib decoder gives up (RecursionError), doubled.  Such a
    line raises an error on deserialisation that is not a ValueError.  None if the decoder never gives up below 2**20."""
    if not _DEEP:
        n, found = 64, None
        while n <= 2 ** 20 and found is None:
            try:
                json.loads('[' * n)
            except RecursionError:
                found = n
            except ValueError:
                pass
            n *= 2
        _DEEP.append('[' * (2 * found) if found else None)
    return _DEEP[0]


def form_lines():
    """The catalogue: (name, line), deduplicated, blank results dropped, simplest (shortest) values first."""
    seen, out = set(), [('blank', b) for b in FORM_BLANKS]
    for dname, fn in FORM_DAMAGES:
        for v in FORM_VALUES:
            line = fn(v)
            if line.strip() and line not in seen:
                seen.add(line)
                out.append((dname, line))
    for ch in LOOKALIKES:
        for tpl in LOOKALIKE_TEMPLATES:
            out.append(('lookalike-break', tpl.replace('X', ch)))
    return out


def form_decodable(line):
    try:
        json.loads(line)
        return True
    except Exception:
        return False


def form_file(layout, line, eol):
    lines = tuple(line if x == 'C' else (FORM_OBJ if x == 'O' else x) for x in layout)
    return lines, jsonl_content(lines, eol, True).encode('utf-8')


def form_expected(lines, ignore_errors, reverse):
    out = []
    for l in (lines[::-1] if reverse else lines):
        if not l.strip():
            continue
        try:
            out.append(json.loads(l))
        except ValueError:
            if not ignore_errors:
                out.append('<ValueError>')
                break
        except Exception:
            if not ignore_errors:
                raise AssertionError('harness: only explored with ignore_errors')
    return out


def run_form_case(jsonutils, case, path):
    line = deep_line() if case['line'] == DEEP_NAME else case['line']
    lines, data = form_file(FORM_LAYOUTS[case['layout']], line, case['eol'])
    with open(path, 'wb') as f:
        f.write(data)
    exp = form_expected(lines, case['ignore_errors'], case['reverse'])
    obs = run_jsonl(jsonutils, case['kind'], data, path, case['ignore_errors'], case['reverse'], case['blocksize'],
                    protocol=case['protocol'])
    if obs == ('ok', exp) and repr(obs[1]) == repr(exp):          # repr: 1 / True / 1.0 are different records
        return None, exp, obs
    return ('C19|cls:JSONLIterator|%s|%s' % ('reverse' if case['reverse'] else 'forward', gap_what(obs)), exp, obs)


def form_shard(arg):
    from boltons import jsonutils
    scratch, which, nshards = arg
    t = inputs.Tally()
    path = os.path.join(scratch, 'form-%d.dat' % os.getpid())
    todo = [(d, l, False) for d, l in form_lines()][which::nshards]
    if which == nshards - 1 and deep_line() is not None:
        todo.append(('too-deep', DEEP_NAME, True))
    for dname, line, deep in todo:
        undecodable = deep or not line.strip() or not form_decodable(line) or dname == 'lookalike-break'
        for li, layout in enumerate(FORM_LAYOUTS):
            for eol in FORM_EOLS:
                for kind in (LOOKALIKE_KINDS if dname == 'lookalike-break' else JSONL_KINDS):
                    for ignore_errors in ((True,) if deep else (False, True)):
                        for reverse, bs in ((False, None), (True, None), (True, 3)):
                            if deep and bs == 3:
                                continue            # a 3-byte block on a line of many KiB is quadratic
                            if saw_hang():
                                t.add('cut_short_after_hang')
                                return t
                            case = {'part': 'jsonl-corrupt-forms', 'damage': dname, 'line': line, 'layout': li,
                                    'eol': eol, 'kind': kind, 'ignore_errors': ignore_errors, 'reverse': reverse,
                                    'blocksize': bs, 'protocol': 'next' if (li + reverse) % 2 else '__next__'}
                            t.count(nontrivial=undecodable, sample=case if undecodable and reverse else None)
                            sig, exp, obs = run_form_case(jsonutils, case, path)
                            if sig is None:
                                continue
                            t.bad(sig, case, jsonl_short(exp), jsonl_short(list(obs)),
                                  tags=[kind, 'ignore_errors' if ignore_errors else 'strict', 'corrupt_line_forms'])
                            if obs[0] == 'hang':
                                saw_hang(t)
                                return t
    t.add('catalogue_lines', len(todo))
    return t


FORM_SHARDS = 16


# ---------------------------------------------------------------------------------------------------------------

def bounds(ctx):
    q = ctx.quick()
    return {
        'split_maxlen': 5 if q else 6,
        'indent_maxlen': 3 if q else 4,
        'rev_maxtok': 5 if q else 6,
        'rev_state_maxtok': 4 if q else 5,
        'enc_maxtok': 3 if q else 4,
        'rev_wrap_maxtok': 3 if q else 4,
        'jsonl_wrap_maxlines': 2,
        'enc_jsonl_maxlines': 2 if q else 3,
        'rev_state_modes': REV_STATE_MODES_QUICK if q else REV_STATE_MODES,
        'jsonl_maxlines': 3 if q else 4,
        'jsonl_eols': ('\n',) if q else ('\n', '\r\n'),
    }


def run(ctx):
    b = bounds(ctx)
    global HANG_FLAG
    scratch = core.scratch_dir('c19')
    try:
        HANG_FLAG = os.path.join(scratch, 'HANG-1')        # one flag per part: a hang in one function does not
        t1 = inputs.run_shards(
            ctx, split_shard, split_shards(b['split_maxlen'], b['indent_maxlen']), part='iter_splitlines+indent',
            rule='text contains at least one of the 8 line-break forms')
        HANG_FLAG = os.path.join(scratch, 'HANG-1b')       # stop the exploration of the others
        t1b = inputs.run_shards(
            ctx, chars_shard, chars_shards(ctx.quick()), part='iter_splitlines-chars',
            rule='the character is a control, format or separator character (Unicode category C* / Z*, assigned) '
                 'or the text contains a listed line break')
        ctx.coverage['parts']['iter_splitlines-chars']['directed'] = (
            'bulk texts: the numbers of lines are a sample (around powers of two), not every size; long texts with a '
            'break at a size threshold: the thresholds are a sample (powers of two, integer constants of the module)')
        HANG_FLAG = os.path.join(scratch, 'HANG-2')
        t2 = inputs.run_shards(
            ctx, rev_shard, rev_shards(scratch, b['rev_maxtok'], REV_MODES), part='reverse_iter_lines',
            rule='content contains at least one \\n or \\r\\n (case = content x blocksize x file kind x preseek)')
        HANG_FLAG = os.path.join(scratch, 'HANG-2s')
        t2s = inputs.run_shards(
            ctx, rev_shard, rev_shards(scratch, b['rev_state_maxtok'], b['rev_state_modes']),
            part='reverse_iter_lines-file-state',
            rule='content contains at least one \\n or \\r\\n (case = content x blocksize x file state x preseek)')
        HANG_FLAG = os.path.join(scratch, 'HANG-2w')
        t2w = inputs.run_shards(
            ctx, rev_shard, rev_shards(scratch, b['rev_wrap_maxtok'], WRAP_MODES),
            part='reverse_iter_lines-file-wrappers',
            rule='content contains at least one \\n or \\r\\n (case = content x blocksize x kind of file object x '
                 'preseek)')
        HANG_FLAG = os.path.join(scratch, 'HANG-2c')
        t2c = inputs.run_shards(
            ctx, edge_shard, [(scratch, pi, REV_MODES + REV_STATE_MODES) for pi in range(len(EDGE_PATTERNS))],
            part='reverse_iter_lines-block-edges', rule='every content holds thousands of line breaks')
        ctx.coverage['parts']['reverse_iter_lines-block-edges']['directed'] = (
            'file sizes just above twice the default block size only')
        from boltons import jsonutils as _ju, strutils as _su
        HANG_FLAG = os.path.join(scratch, 'HANG-2e')
        t2e = inputs.run_shards(
            ctx, large_shard, [(scratch, n, v, REV_MODES) for n, v in large_sizes(_ju, ctx.quick())],
            part='reverse_iter_lines-large-files', rule='every content holds hundreds of line breaks')
        ctx.coverage['parts']['reverse_iter_lines-large-files']['directed'] = (
            'the file sizes are a sample (2**k - 1, 2**k, 2**k + 1 and around integer constants of the module)')
        HANG_FLAG = os.path.join(scratch, 'HANG-2d')
        t2d = inputs.run_shards(
            ctx, enc_shard, enc_shards(scratch, b['enc_maxtok'], b['enc_jsonl_maxlines']),
            part='reverse_iter_lines-encodings',
            rule='the text has a line break and a character >= U+0080 / the JSONL file has a character >= U+0080')
        HANG_FLAG = os.path.join(scratch, 'HANG-2b')
        t2b = inputs.run_shards(
            ctx, mb_shard, [(scratch, lead, REV_MODES) for lead in MB_LEADS + ('lookalikes',)],
            part='reverse_iter_lines-multibyte',
            rule='content contains at least one \\n or \\r\\n; every content holds a multi-byte character')
        HANG_FLAG = os.path.join(scratch, 'HANG-3')
        t3 = inputs.run_shards(
            ctx, jsonl_shard, jsonl_shards(scratch, b['jsonl_maxlines'], b['jsonl_eols'], JSONL_KINDS, ctx.quick()),
            part='jsonl',
            rule='file has >= 2 lines and at least one blank or corrupt line '
                 '(case = file x file kind x ignore_errors x direction x block size)')
        HANG_FLAG = os.path.join(scratch, 'HANG-3w')
        t3w = inputs.run_shards(
            ctx, jsonl_shard, jsonl_shards(scratch, b['jsonl_wrap_maxlines'], ('\n',), JSONL_WRAP_KINDS, True),
            part='jsonl-file-wrappers',
            rule='file has >= 2 lines and at least one blank or corrupt line '
                 '(case = file x kind of file object x ignore_errors x direction x block size)')
        HANG_FLAG = os.path.join(scratch, 'HANG-3b')
        t3b = inputs.run_shards(
            ctx, gap_shard, gap_shards(scratch, ctx.quick()), part='jsonl-long-gaps',
            rule='every file has two objects separated and surrounded by runs of >= 255 skipped lines')
        ctx.coverage['parts']['jsonl-long-gaps']['directed'] = ('the run lengths are a sample (around powers of two '
                                                                'and the recursion limit), not every file size')
        HANG_FLAG = os.path.join(scratch, 'HANG-3c')
        t3c = inputs.run_shards(
            ctx, form_shard, [(scratch, k, FORM_SHARDS) for k in range(FORM_SHARDS)], part='jsonl-corrupt-forms',
            rule='the catalogue line is blank or undecodable for the stdlib json.loads, or holds a character that '
                 'str.splitlines() breaks at and a JSON Lines file does not')
        HANG_FLAG = os.path.join(scratch, 'HANG-3d')
        t3d = inputs.run_shards(
            ctx, big_jsonl_shard, [(scratch, n) for n in big_jsonl_sizes(_ju, ctx.quick())], part='jsonl-large-files',
            rule='every file has hundreds of records with blank and corrupt lines interspersed')
        ctx.coverage['parts']['jsonl-large-files']['directed'] = 'the file sizes are a sample'
        left = sorted(os.listdir(scratch))
    finally:
        HANG_FLAG = None
        shutil.rmtree(scratch, ignore_errors=True)
    leaked = sum(t.extra.get('harness_open_files_left', 0) for t in (t2, t2s, t2w))
    if leaked:
        ctx.note('harness: %d file descriptors were still open at the end of reverse_iter_lines shards' % leaked)
    ctx.coverage['rule'] = ('non-trivial = the input contains a line break (iter_splitlines, reverse_iter_lines) / '
                            'the JSONL file has >= 2 lines with a blank or corrupt one; every counted case is a '
                            'distinct (input, configuration) tuple by construction')
    cut = sum(t.extra.get('cut_short_after_hang', 0) + t.extra.get('hangs', 0) for t in (t1, t1b, t2, t2s, t2w, t2c, t2e, t2d, t2b, t3, t3w, t3b, t3c, t3d))
    ctx.coverage['exhaustive'] = not cut
    if cut:
        ctx.note('a call into the code under test did not terminate within %d CPU-seconds: the remaining shards were '
                 'cut short, the enumeration is NOT exhaustive in this run' % CALL_BUDGET_S)
    ctx.coverage['bounds'] = {
        'iter_splitlines': {'alphabet': list(SPLIT_ALPHABET), 'max_length': b['split_maxlen'],
                            'indent_max_length': b['indent_maxlen'],
                            'indent_settings': [list(s) for s in INDENT_SETTINGS]},
        'reverse_iter_lines': {'tokens': list(REV_TOKENS), 'max_tokens': b['rev_maxtok'],
                               'blocksizes': 'every 1..len(bytes)+1 and the default 4096', 'modes': list(REV_MODES),
                               'preseek': [True, 'False with the cursor at the end']},
        'jsonl': {'line_menu': list(JSONL_MENU), 'max_lines': b['jsonl_maxlines'], 'eol': list(b['jsonl_eols']),
                  'trailing_eol': [False, True], 'kinds': list(JSONL_KINDS), 'ignore_errors': [False, True],
                  'directions': 'forward; reverse with block 4096 (native), 3, len(file)-1, len(file), len(file)+1'
                                + ('' if ctx.quick() else ', 1 (files without the 5000-byte line)')},
        'iter_splitlines-chars': {
            'every code point': 'U+0000..U+10FFFF except \\x1c \\x1d \\x1e, in the template %r (X = the character)'
                                % SWEEP_TEMPLATE,
            'code points below U+%04X' % LOW_LIMIT: 'also in the templates %r' % (LOW_TEMPLATES,),
            'pairs': 'every 2-character text over U+0000..U+00FF (without \\x1c-\\x1e), U+2028, U+2029',
            'bulk': {'kinds': ['cycle through the 8 break forms', 'the same without the final break',
                               '\\x1f-delimited fields, \\n-terminated records'],
                     'numbers_of_lines': bulk_sizes(), 'exhaustive_in_size': False},
            'break_at_size_threshold': {
                'thresholds_T': split_thresholds(_su, ctx.quick()),
                'module_constants_taken_for_thresholds': split_module_constants(_su, ctx.quick()),
                'shapes': {'end': 'F*(T+d) B', 'single': "F*(T+d) B 'b 1' B 'c'", 'periodic': 'F*d (F*(T-len(B)) B)*3',
                           'periodic-1 / periodic+1': 'the same with T-1 / T+1 for T',
                           'dense': "F*d B*(T//len(B)) 'c'*d (T <= 1024 and the largest T only)"},
                'd': {name: list(ds) for name, ds in THRESH_SHAPES}, 'break_forms_B': list(BULK_BREAKS),
                'fillers_F': list(THRESH_FILLERS), 'exhaustive_in_size': False}},
        'reverse_iter_lines-file-state': {
            'tokens': list(REV_TOKENS), 'max_tokens': b['rev_state_maxtok'],
            'blocksizes': '1, 2, 3, len(bytes)-1, len(bytes), len(bytes)+1 and the default 4096',
            'file states': list(b['rev_state_modes']),
            'unflushed': 'the second half of the characters (w+ / TextIOWrapper(BytesIO()): all of them) was written '
                         'through the object handed over and not flushed',
            'preseek': [True, 'False (not for the partly read file): the cursor is at the end after the writes']},
        'reverse_iter_lines-file-wrappers': {
            'tokens': list(REV_TOKENS), 'max_tokens': b['rev_wrap_maxtok'],
            'blocksizes': '1, 2, 3, len(bytes)-1, len(bytes), len(bytes)+1 and the default 4096',
            'kinds of file object': list(WRAP_MODES),
            'meaning': 'codecs.open(), tempfile.NamedTemporaryFile / SpooledTemporaryFile (in memory / rolled over to '
                       'disk; content written through the object) and a user-written proxy that forwards every '
                       'attribute: files in text or binary mode that are not instances of an io class; a gzip file '
                       '(binary / text mode) and an mmap',
            'preseek': [True, 'False with the cursor at the end']},
        'jsonl-file-wrappers': {'line_menu': list(JSONL_MENU), 'max_lines': b['jsonl_wrap_maxlines'], 'eol': ['\n'],
                                'kinds': list(JSONL_WRAP_KINDS), 'directions': 'as for part jsonl'},
        'jsonl-corrupt-forms': {
            'values': list(FORM_VALUES), 'blank_forms': list(FORM_BLANKS), 'damages': [d[0] for d in FORM_DAMAGES] + ['too-deep (ignore_errors only)'],
            'lookalike_breaks': {'characters': list(LOOKALIKES), 'templates (X = the character)':
                                 list(LOOKALIKE_TEMPLATES), 'kinds': list(LOOKALIKE_KINDS)},
            'catalogue_lines': len(form_lines()), 'layouts (C = catalogue line, O = an object)':
                [list(l) for l in FORM_LAYOUTS], 'eol': list(FORM_EOLS), 'kinds': list(JSONL_KINDS),
            'ignore_errors': [False, True], 'directions': 'forward; reverse with block 4096 and 3',
            'protocols': ['next(it)', 'iter(it).next()']},
        'reverse_iter_lines-block-edges': {
            'content': 'pattern * (2 * DEFAULT_BLOCKSIZE // len(pattern) + 3) + "b" * shift, shift 0..len(pattern)',
            'patterns': list(EDGE_PATTERNS), 'blocksizes': 'default, DEFAULT_BLOCKSIZE (read from the module), -1, +1, x2',
            'modes': list(REV_MODES + REV_STATE_MODES), 'exhaustive_in_size': False},
        'reverse_iter_lines-large-files': {
            'sizes_and_variants': [list(x) for x in large_sizes(_ju, ctx.quick())],
            'module_constants_taken_for_thresholds': module_size_constants(_ju),
            'variants': {'head': 'numbered lines, mixed CRLF / LF, empty lines, multi-byte characters; ends with a '
                                 'line break', 'tail': 'the same, no final line break',
                         'long': 'one line that fills the file (sizes <= %d, default blocksize only)'
                                 % LARGE_LONG_LINE_MAX},
            'blocksizes': 'default, 65537, file size + 1', 'modes': list(REV_MODES),
            'preseek': [True, 'False with the cursor at the end'], 'exhaustive_in_size': False},
        'jsonl-large-files': {
            'sizes': big_jsonl_sizes(_ju, ctx.quick()), 'kinds': list(BIG_JSONL_KINDS), 'ignore_errors': [True, False],
            'lines': 'numbered records (2-byte character and raw U+2028 in a string), every 7th blank, every 13th '
                     'corrupt, eol CRLF (every fifth) or LF',
            'directions': 'forward; reverse with block 4096 (native) and file size + 1', 'exhaustive_in_size': False},
        'reverse_iter_lines-encodings': {
            'encodings': list(ENCODINGS), 'tokens': {e: list(v) for e, v in ENC_TOKENS.items()},
            'max_tokens': b['enc_maxtok'], 'blocksizes': 'every 1..len(bytes)+1 and the default 4096',
            'modes': list(ENC_MODES), 'preseek': [True, 'False with the cursor at the end'],
            'jsonl': {'line_menu': list(ENC_JSONL_MENU), 'max_lines': b['enc_jsonl_maxlines'], 'kind': 'text-mode file',
                      'directions': 'forward; reverse with block 4096 and 3', 'ignore_errors': [False, True]}},
        'reverse_iter_lines-multibyte': {
            'characters': 'lowest and highest code point of every UTF-8 lead byte 0xC2..0xF4 (%d characters)'
                          % sum(len(_lead_extremes(b)) for b in MB_LEADS),
            'also': 'the characters %r (line breaks for str.splitlines, not for this function)' % (REV_LOOKALIKES,),
            'templates (X = the character)': list(MB_TEMPLATES),
            'blocksizes, modes, preseek': 'as for reverse_iter_lines'},
        'jsonl-long-gaps': {'layout': 'gap obj gap obj gap, eol \\n, trailing eol', 'gap_kinds': [k[0] for k in GAP_KINDS],
                            'run_lengths': gap_sizes(ctx.quick()), 'kinds': list(JSONL_KINDS),
                            'directions': 'forward; reverse with block 4096 (native) and len(file)-1',
                            'exhaustive_in_size': False},
    }
    ctx.coverage['scratch_left_behind'] = [f for f in left if not f.endswith('.dat') and not f.startswith('HANG')]
    ctx.assumptions += [
        'files are UTF-8 and text-mode files are opened with encoding="utf-8", except in the part '
        'reverse_iter_lines-encodings: text-mode files in latin-1, cp1252 and utf-8-sig (the BOM is not part of the '
        'text).  Encodings whose line feed is not the single byte 0x0A (UTF-16/32) are not explored',
        'a binary object handed over with an explicit encoding= yields its lines as str decoded with that encoding',
        'a JSONLIterator over a non-UTF-8 text-mode file is held to the statement only: the same objects forward and '
        'in reverse',
        'a lone \\r is not a line break of reverse_iter_lines\' domain (statement: \\n- or \\r\\n-separated) and is '
        'not in the content alphabet',
        'an empty file may yield no line or one empty line (the statement does not say); both are accepted',
        'preseek=False is explored only with the cursor at the end of the file; rel_seek is not explored',
        'without ignore_errors the iterator is driven up to the first ValueError only (resuming is not promised)',
        'long runs of skipped lines are explored for a sample of run lengths only (directed scenario)',
        'ignore_errors is the constructor argument (the only documented form): assigning the instance attribute '
        'ignore_errors after construction (before iterating, or after a first ValueError in order to go on leniently) '
        'is outside the statement - the attribute is not documented, and resuming after an error is not promised',
        'long texts are explored for a sample of shapes only: a filler, a line break of every form at / around every '
        'size threshold (powers of two, powers of ten, integer constants of boltons.strutils +-1)',
        'str.splitlines also breaks at \\x1c-\\x1e, which the statement does not list: texts containing them are '
        'outside its domain and are the only code points never passed to iter_splitlines',
        'a file with unflushed writes has the content that reading it back through the same object would show',
        'a line that json.loads cannot decode because it is nested too deeply (RecursionError) is an undecodable line; '
        'it is explored with ignore_errors only (which error is raised without it is not stated)',
    ]


# ---------------------------------------------------------------------------------------------------------------

def replay(ctx, data):
    from boltons import strutils, jsonutils
    case = data['case']
    part = case['part']
    msgs = []
    if part == 'iter_splitlines':
        bad = check_split(strutils, case['text'])
        if bad:
            msgs.append('%s text=%r expected=%r observed=%r' % (bad[0], case['text'], bad[1], bad[2]))
    elif part == 'iter_splitlines-chars':
        text = chars_text(case)
        bad = check_split(strutils, text)
        if bad:
            msgs.append('%s %s' % (bad[0], ('text=%r expected=%r observed=%r' % (text, bad[1], bad[2]))
                                   if len(text) < 100 else
                                   'bulk text %s n=%d' % (case['bulk'], case['n']) if 'bulk' in case else
                                   'text=thresh_text(%r, %d, %d, %d, %d) (%s: T=%d d=%d break=%a filler=%a, %d characters)'
                                   % (case['shape'], case['thresh'], case['d'], case['brk'], case['fill'], case['shape'],
                                      case['thresh'], case['d'], BULK_BREAKS[case['brk']],
                                      THRESH_FILLERS[case['fill']], len(text))))
    elif part == 'indent':
        bad = check_indent(strutils, case['text'], INDENT_SETTINGS[case['setting']])
        if bad:
            msgs.append('%s text=%r expected=%r observed=%r' % (bad[0], case['text'], bad[1], bad[2]))
    elif part in ('reverse_iter_lines', 'reverse_iter_lines-block-edges', 'reverse_iter_lines-large-files'):
        scratch = core.scratch_dir('c19-replay')
        try:
            content = case['content']
            if part == 'reverse_iter_lines-block-edges':
                content = edge_content(case['pattern'], case['shift'], case['block'])
            elif part == 'reverse_iter_lines-large-files':
                content = large_content(case['nbytes'], case['variant'])
            path = os.path.join(scratch, 'rev.dat')
            databytes = content.encode('utf-8')
            with open(path, 'wb') as f:
                f.write(databytes)
            textmode = case['mode'] in TEXT_MODES
            accept = rev_expected(content, textmode)
            obs = call_reverse(jsonutils, case['mode'], databytes, path, case['blocksize'], case['preseek'])
            if part == 'reverse_iter_lines-large-files':
                if not (obs[0] == 'ok' and obs[1] in accept):
                    msgs.append('C19|fn:reverse_iter_lines|%s content=large_content(%d, %r) mode=%s blocksize=%r '
                                'preseek=%r observed %s'
                                % (classify_rev(content, textmode, obs, accept), case['nbytes'], case['variant'],
                                   case['mode'], case['blocksize'], case['preseek'],
                                   '%d items instead of %d' % (len(obs[1]), len(accept[0])) if obs[0] == 'ok' else obs))
            elif part == 'reverse_iter_lines-block-edges':
                if not (obs[0] == 'ok' and obs[1] in accept):
                    msgs.append('C19|fn:reverse_iter_lines|%s content=%r*n+%r (%d bytes) mode=%s blocksize=%r '
                                'preseek=%r observed %s'
                                % (classify_rev(content, textmode, obs, accept), case['pattern'], 'b' * case['shift'],
                                   len(databytes), case['mode'], case['blocksize'], case['preseek'],
                                   '%d items instead of %d' % (len(obs[1]), len(accept[0])) if obs[0] == 'ok' else obs))
            elif not (obs[0] == 'ok' and obs[1] in accept):
                msgs.append('C19|fn:reverse_iter_lines|%s content=%r mode=%s blocksize=%r preseek=%r expected=%r '
                            'observed=%r' % (classify_rev(content, textmode, obs, accept), content, case['mode'],
                                             case['blocksize'], case['preseek'], accept, obs))
            else:
                # "result depends on blocksize": compare with every other blocksize
                for bs in rev_blocksizes(len(databytes)):
                    o2 = call_reverse(jsonutils, case['mode'], databytes, path, bs, case['preseek'])
                    if o2 != obs:
                        msgs.append('C19|fn:reverse_iter_lines|result depends on blocksize content=%r mode=%s '
                                    'blocksize %r -> %r, blocksize %r -> %r'
                                    % (content, case['mode'], case['blocksize'], obs, bs, o2))
                        break
        finally:
            shutil.rmtree(scratch, ignore_errors=True)
    elif part == 'jsonl':
        scratch = core.scratch_dir('c19-replay')
        try:
            lines = tuple(case['lines'])
            content = jsonl_content(lines, case['eol'], case['trailing'])
            path = os.path.join(scratch, 'jsonl.dat')
            with open(path, 'wb') as f:
                f.write(content.encode('utf-8'))
            exp = jsonl_expected(lines, case['ignore_errors'], case['reverse'])
            obs = run_jsonl(jsonutils, case['kind'], content.encode('utf-8'), path, case['ignore_errors'],
                            case['reverse'], case['blocksize'])
            if obs != ('ok', exp):
                msgs.append('C19|cls:JSONLIterator|%s lines=%r eol=%r trailing=%r kind=%s ignore_errors=%r '
                            'blocksize=%r expected=%r observed=%r'
                            % ('reverse' if case['reverse'] else 'forward', list(lines), case['eol'],
                               case['trailing'], case['kind'], case['ignore_errors'], case['blocksize'],
                               jsonl_short(exp), jsonl_short(list(obs))))
        finally:
            shutil.rmtree(scratch, ignore_errors=True)
    elif part in ('reverse_iter_lines-encodings', 'jsonl-encodings'):
        scratch = core.scratch_dir('c19-replay')
        try:
            path = os.path.join(scratch, 'enc.dat')
            if part == 'jsonl-encodings':
                sig, exp, obs = check_enc_jsonl_case(jsonutils, case, path)
                if sig:
                    msgs.append('%s lines=%r trailing=%r text-mode file encoding=%s ignore_errors=%r blocksize=%r '
                                'expected=%r observed=%r' % (sig, case['lines'], case['trailing'], case['encoding'],
                                                             case['ignore_errors'], case['blocksize'], exp, obs))
            else:
                what, accept, obs = check_enc_case(jsonutils, case, path)
                if what:
                    msgs.append('C19|fn:reverse_iter_lines|%s content=%r encoding=%s mode=%s blocksize=%r preseek=%r '
                                'expected=%r observed=%r' % (what, case['content'], case['encoding'], case['mode'],
                                                             case['blocksize'], case['preseek'], accept, obs))
        finally:
            shutil.rmtree(scratch, ignore_errors=True)
    elif part == 'jsonl-corrupt-forms':
        scratch = core.scratch_dir('c19-replay')
        try:
            sig, exp, obs = run_form_case(jsonutils, case, os.path.join(scratch, 'form.dat'))
            if sig:
                msgs.append('%s line=%r layout=%r eol=%r kind=%s ignore_errors=%r blocksize=%r protocol=%s expected=%r '
                            'observed=%r' % (sig, case['line'], list(FORM_LAYOUTS[case['layout']]), case['eol'],
                                             case['kind'], case['ignore_errors'], case['blocksize'],
                                             case['protocol'], jsonl_short(exp), jsonl_short(list(obs))))
        finally:
            shutil.rmtree(scratch, ignore_errors=True)
    elif part == 'jsonl-large-files':
        scratch = core.scratch_dir('c19-replay')
        try:
            path = os.path.join(scratch, 'big.dat')
            lines, databytes = big_jsonl_file(case['nbytes'])
            with open(path, 'wb') as f:
                f.write(databytes)
            sig, exp, obs = run_big_jsonl_case(jsonutils, case, lines, databytes, path)
            if sig:
                msgs.append('%s file=big_jsonl_file(%d) kind=%s ignore_errors=%r blocksize=%r expected=%r observed=%r'
                            % (sig, case['nbytes'], case['kind'], case['ignore_errors'], case['blocksize'],
                               big_short(exp), [obs[0]] + [big_short(x) for x in obs[1:]]))
        finally:
            shutil.rmtree(scratch, ignore_errors=True)
    elif part == 'jsonl-long-gaps':
        scratch = core.scratch_dir('c19-replay')
        try:
            path = os.path.join(scratch, 'gap.dat')
            lines, databytes = write_gap_file(case['gap'], case['n'], path)
            sig, exp, obs = run_gap_case(jsonutils, case, lines, databytes, path)
            if sig:
                msgs.append('%s gap=%s n=%d (layout: gap obj gap obj gap) kind=%s ignore_errors=%r blocksize=%r '
                            'expected=%r observed=%r' % (sig, case['gap'], case['n'], case['kind'],
                                                         case['ignore_errors'], case['blocksize'],
                                                         jsonl_short(exp), jsonl_short(list(obs))))
        finally:
            shutil.rmtree(scratch, ignore_errors=True)
    else:
        raise ValueError('unknown part %r' % part)
    return msgs

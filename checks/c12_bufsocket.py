"""C12 - BufferedSocket framing is independent of chunking; no byte lost or duplicated.

Engine E4 (environment answers): the real BufferedSocket / NetstringSocket run against a scripted socket object and a
virtual clock (module-global seam `socketutils.time`).  Enumerated exhaustively: every byte stream up to a length bound
over {a, |, -}, every composition of it into recv() chunks, every placement of timeouts (socket.timeout answers and clock
jumps past the deadline), recvsize/maxsize settings and every call program up to length 2; on the send side every
partial-send pattern and timeout placement.  Also: the alphabet mapped to non-ASCII / non-UTF-8 / NUL bytes for the
recv_until programs, every byte value as a delimiter and as a netstring payload, and calls refused for their arguments
(non-zero flags -> ValueError) placed before and after ordinary calls (no state may be left by a refused call).  Oracles: an independent whole-stream reference model (adaptive to recv's
legitimately nondeterministic length), the same implementation fed the stream in one piece, and the conservation
invariant after every call.
"""
import itertools
import socket

from mc import core, inputs

PROPERTY = 'C12'
LEVEL = 'fault_enumeration'

BIGDT = 1000.0


class Clock:
    def __init__(self):
        self.now = 1000.0

    def time(self):
        return self.now


class InjectedSocketError(BlockingIOError):
    """A socket error that is not a timeout (EWOULDBLOCK in non-blocking use, a reset ...): the call may fail, the bytes
    received so far must stay in the buffer, and the caller may try again."""


class ScriptSocket:
    """recv script items: bytes (a delivered chunk), 'T' (socket.timeout), 'J' (the clock jumps past any deadline, then
    the next chunk is delivered normally).  After the script: EOF."""

    def __init__(self, items, clock, send_script=None):
        self.items = list(items)
        self.clock = clock
        self.timeout = None
        self.sent = bytearray()
        self.send_script = list(send_script or [])
        self.send_calls = 0
        self.recv_calls = 0

    def settimeout(self, t):
        self.timeout = t

    def gettimeout(self):
        return self.timeout

    def undelivered(self):
        return b''.join(i for i in self.items if isinstance(i, bytes))

    def recv(self, n):
        self.recv_calls += 1
        while self.items:
            it = self.items[0]
            if it == 'T':
                self.items.pop(0)
                raise socket.timeout('timed out')
            if it == 'J':
                self.items.pop(0)
                self.clock.now += BIGDT
                continue
            if it == 'E':
                self.items.pop(0)
                raise InjectedSocketError(11, 'Resource temporarily unavailable (injected)')
            if len(it) <= n:
                self.items.pop(0)
                return it
            self.items[0] = it[n:]
            return it[:n]
        return b''

    def send(self, data):
        self.send_calls += 1
        if self.send_script:
            k = self.send_script.pop(0)
        else:
            k = len(data)
        if k == 'T':
            raise socket.timeout('timed out')
        if k == 'E':
            raise InjectedSocketError(11, 'Resource temporarily unavailable (injected)')
        if k == 'J':
            self.clock.now += BIGDT
            k = len(data)
        k = max(1, min(k, len(data))) if data else 0
        self.sent += data[:k]
        return k


def su():
    from boltons import socketutils
    return socketutils


# ----------------------------------------------------------------------------------------------------
# receive side

CALLS = [
    ('recv_until', b'|', False), ('recv_until', b'|-', False), ('recv_until', b'|', True),
    ('recv_size', 1), ('recv_size', 2), ('recv_size', 3), ('peek', 2), ('recv', 1), ('recv', 2), ('recv_close',),
    ('recv_until', b'--', True), ('recv_until', b'|-|', False),
    # limits given per call instead of per socket: maxsize=None (unlimited) and a number that differs from the socket's
    ('recv_close', None), ('recv_close', 2), ('recv_until', b'|', False, None), ('recv_until', b'|', True, 1),
]
INF = 1 << 60

# a call that the class documents as refused (non-zero flags -> ValueError), mixed with ordinary calls: whatever it
# raises, the stream must be conserved and the ordinary calls around it must see the same stream
REFUSED_CALLS = [('recv', 2, 1)]

# byte values: the stream alphabet (a, |, -) mapped to bytes that are not ASCII / not valid UTF-8 / NUL / parts of one
# multi-byte UTF-8 character / CR LF, so that delimiters, data and the texts of Timeout / ConnectionClosed /
# MessageTooLong are built from arbitrary byte values
TRANSLATIONS = [b'\x00\xff\x80', b'a\xc3\xa9', b'\xff\r\n']


def translate_call(call, table):
    return tuple(x.translate(table) if isinstance(x, bytes) else x for x in call)


class Model:
    """Whole-stream reference: looks at the complete remaining stream."""

    def __init__(self, stream, maxsize):
        self.s, self.pos, self.maxsize = stream, 0, maxsize

    def expect(self, call):
        rest = self.s[self.pos:]
        k = call[0]
        if k == 'recv_until':
            d, with_d = call[1], call[2]
            maxsize = self.maxsize if len(call) < 4 else (INF if call[3] is None else call[3])
            i = rest.find(d, 0, maxsize)
            if i >= 0:
                self.pos += i + len(d)
                return ('ok', rest[:i + len(d)] if with_d else rest[:i])
            if len(rest) > maxsize:
                return ('exc', 'MessageTooLong')
            return ('exc', 'ConnectionClosed')
        if k == 'recv_size':
            if len(rest) >= call[1]:
                self.pos += call[1]
                return ('ok', rest[:call[1]])
            return ('exc', 'ConnectionClosed')
        if k == 'peek':
            if len(rest) >= call[1]:
                return ('ok', rest[:call[1]])
            return ('exc', 'ConnectionClosed')
        if k == 'recv_close':
            maxsize = self.maxsize if len(call) < 2 else (INF if call[1] is None else call[1])
            if len(rest) <= maxsize:
                self.pos = len(self.s)
                return ('ok', rest)
            return ('exc', 'MessageTooLong')
        raise AssertionError(call)

    def check_recv(self, n, got):
        """recv(n): a non-empty prefix of the remainder, no longer than n; empty only at end of stream."""
        rest = self.s[self.pos:]
        if got[0] != 'ok':
            return 'recv raised %s' % got[1]
        v = got[1]
        if not isinstance(v, bytes) or len(v) > n or rest[:len(v)] != v or (not v and rest):
            return 'recv(%d) returned %r with remaining stream %r' % (n, v, rest)
        self.pos += len(v)
        return None


def do_call(bs, call, sock, max_retries):
    """Run one call, retrying after Timeout.  Returns (('ok', v) | ('exc', name), timeouts_seen)."""
    sumod = su()
    k = call[0]
    n_to = 0
    while True:
        try:
            if k == 'recv_until' and len(call) > 3:
                v = bs.recv_until(call[1], with_delimiter=call[2], maxsize=call[3])
            elif k == 'recv_close' and len(call) > 1:
                v = bs.recv_close(maxsize=call[1])
            elif k == 'recv_until':
                v = bs.recv_until(call[1], with_delimiter=call[2])
            elif k == 'recv_size':
                v = bs.recv_size(call[1])
            elif k == 'peek':
                v = bs.peek(call[1])
            elif k == 'recv' and len(call) > 2:
                # recv with a non-zero flags argument: documented as not supported.  A ValueError is a refusal: the
                # call must then have had no effect on the stream (conservation is checked by the caller)
                try:
                    v = bs.recv(call[1], call[2])
                except ValueError:
                    return ('refused', 'ValueError'), n_to
            elif k == 'recv':
                v = bs.recv(call[1])
            elif k == 'recv_close':
                v = bs.recv_close()
            return ('ok', v), n_to
        except (sumod.Timeout, InjectedSocketError):
            n_to += 1
            if n_to > max_retries:
                return ('exc', 'Timeout (still timing out after %d retries)' % max_retries), n_to
        except (sumod.ConnectionClosed, sumod.MessageTooLong) as e:
            return ('exc', type(e).__name__), n_to
        except Exception as e:
            return ('exc', 'unexpected ' + type(e).__name__), n_to


def run_recv(stream, items, recvsize, maxsize, program, timeout=10.0):
    """Returns (list of results, first problem or None)."""
    sumod = su()
    clock = Clock()
    sumod.time = clock
    sock = ScriptSocket(items, clock)
    kw = {'timeout': timeout}
    if recvsize is not None:
        kw['recvsize'] = recvsize
    if maxsize is not None:
        kw['maxsize'] = maxsize
    bs = sumod.BufferedSocket(sock, **kw)
    model = Model(stream, maxsize if maxsize is not None else sumod.DEFAULT_MAXSIZE)
    n_special = sum(1 for i in items if not isinstance(i, bytes))
    consumed = b''
    results = []
    for call in program:
        got, _ = do_call(bs, call, sock, n_special + 1)
        results.append(got)
        if call[0] == 'recv' and got[0] == 'refused':
            pass            # nothing handed out: the model does not move; conservation below must still hold
        elif call[0] == 'recv':
            why = model.check_recv(call[1], got)
            if why:
                return results, ('recv prefix property', 'non-empty prefix of the remaining stream', why, call)
            consumed += got[1]
        else:
            want = model.expect(call)
            if got != want:
                return results, ('result differs from whole-stream reference', want, got, call)
            if got[0] == 'ok' and call[0] != 'peek':
                if call[0] == 'recv_until' and not call[2]:
                    consumed += got[1] + call[1]
                else:
                    consumed += got[1]
        # conservation: handed out + buffered + undelivered == stream, in order (also after exceptions)
        total = consumed + bs.getrecvbuffer() + sock.undelivered()
        if total != stream:
            return results, ('conservation', stream, total, call)
    return results, None


def placements(nchunks, maxspecial):
    """Positions (before chunk i, i = nchunks meaning before EOF) x kind, for up to maxspecial timeouts/jumps."""
    out = [()]
    slots = [(i, k) for i in range(nchunks + 1) for k in ('T', 'J', 'E')]
    out += [(s,) for s in slots]
    if maxspecial >= 2:
        out += list(itertools.combinations_with_replacement(slots, 2))
    return out


def build_items(stream, sizes, specials):
    chunks, p = [], 0
    for n in sizes:
        chunks.append(stream[p:p + n]); p += n
    items = []
    for i, c in enumerate(chunks + [None]):
        for (pos, kind) in specials:
            if pos == i:
                items.append(kind)
        if c is not None:
            items.append(c)
    return items


def recv_shard(arg):
    streams, programs, recvsizes, maxsizes, maxspecial = arg
    t = inputs.Tally()
    sumod = su()
    saved_time = sumod.time
    try:
        for stream in streams:
            comps = list(inputs.compositions(len(stream)))
            for program in programs:
                has_recv = any(c[0] == 'recv' for c in program)
                for maxsize in maxsizes:
                    ref_whole = None
                    if not has_recv:
                        ref_whole, prob = run_recv(stream, [stream] if stream else [], None, maxsize, program)
                    for recvsize in recvsizes:
                        for sizes in comps:
                            for sp in placements(len(sizes), maxspecial):
                                items = build_items(stream, sizes, sp)
                                res, prob = run_recv(stream, items, recvsize, maxsize, program)
                                case = {'stream': stream, 'chunks': sizes, 'specials': [list(x) for x in sp],
                                        'recvsize': recvsize, 'maxsize': maxsize, 'program': [list(c) for c in program]}
                                t.count(nontrivial=(len(sizes) > 1 or bool(sp)), sample=case)
                                if prob:
                                    what, exp, got, call = prob
                                    t.bad('C12|call:%s%s|%s' % (call[0], '(flags)' if call[0] == 'recv' and len(call) > 2
                                                                else '', what), case, exp, got)
                                elif ref_whole is not None and res != ref_whole:
                                    t.bad('C12|program|differs from the same implementation fed the stream in one piece',
                                          case, ref_whole, res)
    finally:
        sumod.time = saved_time
    return t


def delim_bytes_shard(values):
    t = inputs.Tally()
    sumod = su()
    saved_time = sumod.time
    try:
        for v in values:
            f = b'a' if v != 0x61 else b'b'
            for d in (bytes([v]), bytes([v, 255 - v])):
                if f in d:
                    f = b'c'
                stream = f + d + f
                for with_d in (False, True):
                    program = (('recv_until', d, with_d), ('recv_close',))
                    for sizes in inputs.compositions(len(stream)):
                        for sp in placements(len(sizes), 1):
                            res, prob = run_recv(stream, build_items(stream, sizes, sp), None, None, program)
                            case = {'stream': stream, 'chunks': sizes, 'specials': [list(x) for x in sp],
                                    'recvsize': None, 'maxsize': None, 'program': [list(c) for c in program]}
                            t.count(nontrivial=(len(sizes) > 1 or bool(sp)), sample=case)
                            if prob:
                                what, exp, got, call = prob
                                t.bad('C12|call:%s|%s' % (call[0], what), case, exp, got)
    finally:
        sumod.time = saved_time
    return t


# ----------------------------------------------------------------------------------------------------
# send side: exhaustive DFS over the socket's answers (accepted byte counts, timeouts, clock jumps)

SEND_OPS = [('send', b'ab'), ('send', b'c'), ('sendall', b'def'), ('buffer', b'gh'), ('buffer', b''), ('flush',),
            ('send', b''), ('send', b'ijkl'),
            # calls refused for their arguments (non-zero flags are documented as not supported -> ValueError): the
            # payload of a call that was refused is not part of the accepted stream and must never reach the wire
            ('send', b'X\xff', 1), ('sendall', b'\x00Y', socket.MSG_OOB)]


def run_send(program, script, max_timeouts):
    sumod = su()
    clock = Clock()
    sumod.time = clock
    sock = ScriptSocket([], clock, send_script=script)
    bs = sumod.BufferedSocket(sock, timeout=10.0)
    accepted = b''
    points = []       # (len(data) offered,) per sock.send call, to enumerate alternatives
    orig_send = sock.send

    def send(data):
        points.append(len(data))
        return orig_send(data)
    sock.send = send
    for op in program:
        before_sent = len(sock.sent)
        n_to = 0
        first = True
        refused = False
        while True:
            try:
                if op[0] in ('send', 'sendall') and len(op) > 2 and first:
                    try:
                        ret = getattr(bs, op[0])(op[1], op[2])
                        accepted += op[1]       # flags tolerated: then it is an ordinary send
                    except ValueError:
                        refused = True
                elif op[0] in ('send', 'sendall'):
                    # a retry after Timeout must not offer the payload again: it is already in the send buffer
                    ret = getattr(bs, op[0])(op[1] if first else b'')
                    if first:
                        accepted += op[1]
                elif op[0] == 'buffer':
                    bs.buffer(op[1])
                    accepted += op[1]
                    ret = None
                else:
                    ret = bs.flush()
                break
            except (sumod.Timeout, InjectedSocketError):
                if first and op[0] in ('send', 'sendall'):
                    accepted += op[1]
                first = False
                n_to += 1
                if n_to > max_timeouts + 1:
                    return points, ('send keeps timing out', 'completes', 'Timeout x%d' % n_to, op)
                # state after a Timeout must still be consistent
                if bytes(sock.sent) + bs.getsendbuffer() != accepted:
                    return points, ('conservation after Timeout', accepted, bytes(sock.sent) + bs.getsendbuffer(), op)
            except Exception as e:
                return points, ('unexpected exception', 'no exception', type(e).__name__, op)
        total = bytes(sock.sent) + bs.getsendbuffer()
        if refused:
            if total != accepted or len(sock.sent) != before_sent:
                return points, ('a call refused with ValueError changed the send buffer / the wire', accepted, total, op)
            continue
        if total != accepted:
            return points, ('conservation: sent + send buffer != accepted payloads', accepted, total, op)
        if op[0] in ('send', 'sendall', 'flush'):
            if bs.getsendbuffer() != b'':
                return points, ('send returned with unsent data', b'', bs.getsendbuffer(), op)
            if bytes(sock.sent) != accepted:
                return points, ('bytes on the wire differ', accepted, bytes(sock.sent), op)
            if op[0] != 'flush' and n_to == 0 and ret != len(sock.sent) - before_sent:
                return points, ('return value is not the number of bytes sent', len(sock.sent) - before_sent, ret, op)
    return points, None


def send_shard(arg):
    programs, max_timeouts = arg
    t = inputs.Tally()
    sumod = su()
    saved_time = sumod.time
    try:
        for program in programs:
            stack = [[]]
            while stack:
                script = stack.pop()
                points, prob = run_send(program, script, max_timeouts)
                case = {'program': [list(o) for o in program], 'send_answers': list(script)}
                t.count(nontrivial=any(isinstance(k, str) or k < points[i] for i, k in enumerate(script)
                                       if i < len(points)), sample=case)
                if prob:
                    what, exp, got, op = prob
                    t.bad('C12|send:%s%s|%s' % (op[0], '(flags)' if len(op) > 2 else '', what), case, exp, got)
                    continue
                n_special = sum(1 for k in script if isinstance(k, str))
                for i in range(len(script), len(points)):
                    base = script + [points[j] for j in range(len(script), i)]
                    for k in range(1, points[i]):
                        stack.append(base + [k])
                    if n_special < max_timeouts:
                        stack.append(base + ['T'])
                        stack.append(base + ['J'])
                        stack.append(base + ['E'])
    finally:
        sumod.time = saved_time
    return t


# ----------------------------------------------------------------------------------------------------
# netstrings: write through every partial-send pattern, read back under every chunking

NS_ALPHABET = [b'a', b':', b',', b'1', b'\x00']


def ns_encode(p):
    return str(len(p)).encode('ascii') + b':' + p + b','


def ns_shard(payload_lists):
    t = inputs.Tally()
    sumod = su()
    saved_time = sumod.time
    try:
        for payloads in payload_lists:
            wire_want = b''.join(ns_encode(p) for p in payloads)
            # write side: all partial-send patterns with at most one short answer per send call chain
            stack = [[]]
            wires = set()
            while stack:
                script = stack.pop()
                clock = Clock(); sumod.time = clock
                sock = ScriptSocket([], clock, send_script=script)
                points = []
                orig = sock.send

                def send(data, _o=orig, _p=points):
                    _p.append(len(data)); return _o(data)
                sock.send = send
                ns = sumod.NetstringSocket(sock)
                prob = None
                interrupted = False
                try:
                    for p in payloads:
                        try:
                            ns.write_ns(p)
                        except (sumod.Timeout, InjectedSocketError):
                            # a send that timed out keeps what it had accepted in the send buffer: the caller flushes
                            # (retrying once more if need be) and goes on with the next payload
                            interrupted = True
                            for attempt in range(3):
                                try:
                                    ns.bsock.flush()
                                    break
                                except (sumod.Timeout, InjectedSocketError):
                                    continue
                except Exception as e:
                    prob = type(e).__name__
                case = {'payloads': payloads, 'send_answers': list(script)}
                t.count(nontrivial=bool(script), sample=case)
                if prob or bytes(sock.sent) != wire_want:
                    t.bad('C12|netstring:write_ns%s|bytes on the wire' % ('(interrupted, then flushed)' if interrupted else ''),
                          case, wire_want, prob or bytes(sock.sent))
                    continue
                wires.add(bytes(sock.sent))
                if len(script) < 2:
                    n_special = sum(1 for k in script if isinstance(k, str))
                    for i in range(len(script), len(points)):
                        base = script + [points[j] for j in range(len(script), i)]
                        for k in range(1, points[i]):
                            stack.append(base + [k])
                        if n_special < 1:
                            stack.append(base + ['T'])
                            stack.append(base + ['E'])
            # read side: every chunking of the wire bytes
            for sizes in inputs.compositions(len(wire_want)):
                clock = Clock(); sumod.time = clock
                items = build_items(wire_want, sizes, ())
                sock = ScriptSocket(items, clock)
                ns = sumod.NetstringSocket(sock)
                got = []
                try:
                    for _ in payloads:
                        got.append(ns.read_ns())
                except Exception as e:
                    got.append('raised ' + type(e).__name__)
                case = {'payloads': payloads, 'chunks': sizes}
                t.count(nontrivial=len(sizes) > 1, sample=case)
                if got != list(payloads):
                    t.bad('C12|netstring:read_ns|payloads read back', case, list(payloads), got)
    finally:
        sumod.time = saved_time
    return t


def ns_maxsize_shard(arg):
    """A reader built with a small maxsize that is raised per call (read_ns(maxsize=N)) or by setmaxsize(N): the length
    prefix of a longer payload has more digits than the instance limit allowed for."""
    mode, payload_len = arg
    t = inputs.Tally()
    sumod = su()
    saved_time = sumod.time
    try:
        payload = (b'a:,1' * 8)[:payload_len]
        wire = ns_encode(payload) + ns_encode(b'z')
        for sizes in inputs.compositions(len(wire)):
            if len(sizes) > 4 and len(sizes) < len(wire):     # up to three cuts, and one byte at a time
                continue
            clock = Clock(); sumod.time = clock
            sock = ScriptSocket(build_items(wire, sizes, ()), clock)
            ns = sumod.NetstringSocket(sock, maxsize=5)
            got = []
            try:
                if mode == 'per-call':
                    got.append(ns.read_ns(maxsize=100))
                    got.append(ns.read_ns(maxsize=100))
                else:
                    ns.setmaxsize(100)
                    got.append(ns.read_ns())
                    got.append(ns.read_ns())
            except Exception as e:
                got.append('raised ' + type(e).__name__)
            case = {'payloads': [payload, b'z'], 'chunks': sizes, 'reader_maxsize': 5, 'raised_to': 100, 'how': mode}
            t.count(nontrivial=len(sizes) > 1, sample=case)
            if got != [payload, b'z']:
                t.bad('C12|netstring:read_ns(maxsize raised %s)|payloads read back' % mode, case, [payload, b'z'], got)
    finally:
        sumod.time = saved_time
    return t


def ns_boundary_shard(maxsize):
    """Payloads exactly at the limit: maxsize a power of ten or of two (where the number of digits of the length prefix
    changes), payload of maxsize - 1 and maxsize bytes, a few chunkings of the wire (not exhaustive in the chunking)."""
    t = inputs.Tally()
    sumod = su()
    saved_time = sumod.time
    try:
        for plen in (maxsize - 1, maxsize):
            payload = (b'a:,1' * (plen // 4 + 1))[:plen]
            wire = ns_encode(payload) + ns_encode(b'z')
            ndig = len(str(plen))
            cuts = [[len(wire)], [1, len(wire) - 1], [ndig, len(wire) - ndig], [ndig + 1, len(wire) - ndig - 1],
                    [ndig + 1 + plen, len(wire) - ndig - 1 - plen]]
            for how in ('constructor', 'per-call', 'setmaxsize'):
                for sizes in cuts:
                    if any(x <= 0 for x in sizes):
                        continue
                    clock = Clock(); sumod.time = clock
                    sock = ScriptSocket(build_items(wire, sizes, ()), clock)
                    got = []
                    try:
                        if how == 'constructor':
                            ns = sumod.NetstringSocket(sock, maxsize=maxsize)
                            got = [ns.read_ns(), ns.read_ns()]
                        elif how == 'per-call':
                            ns = sumod.NetstringSocket(sock, maxsize=5)
                            got = [ns.read_ns(maxsize=maxsize), ns.read_ns(maxsize=maxsize)]
                        else:
                            ns = sumod.NetstringSocket(sock, maxsize=5)
                            ns.setmaxsize(maxsize)
                            got = [ns.read_ns(), ns.read_ns()]
                    except Exception as e:
                        got.append('raised ' + type(e).__name__)
                    case = {'payload_len': plen, 'chunks': sizes, 'maxsize': maxsize, 'how': how}
                    t.count(nontrivial=True, sample=case)
                    if got != [payload, b'z']:
                        t.bad('C12|netstring:read_ns(payload at the limit, maxsize by %s)|payloads read back' % how, case,
                              'the payload of %d bytes and b"z"' % plen, [g if isinstance(g, str) else len(g) for g in got])
    finally:
        sumod.time = saved_time
    return t


# ----------------------------------------------------------------------------------------------------

def run(ctx):
    quick = ctx.quick()
    maxlen = 4 if quick else 6
    alphabet = [b'a', b'|', b'-']
    streams = [b''.join(s) for s in inputs.strings(alphabet, maxlen)]
    calls = CALLS
    progs = [(c,) for c in calls] + [(a, b) for a in calls for b in calls]
    recvsizes = [1, 2, None]
    maxsizes = [2, 3, None]
    maxspecial = 1 if quick else 2
    if not quick:
        # length-5/6 streams: programs of length 2 restricted to those starting with a framing call (the interesting
        # cross-call state is what recv_until / recv_size leave in the buffer)
        pass
    shards = []
    singles = [p for p in progs if len(p) == 1]
    for i in range(0, len(streams), 4):
        chunk = streams[i:i + 4]
        short = [x for x in chunk if len(x) <= 3]
        longer = [x for x in chunk if len(x) > 3]
        # quick: two-call programs on every stream of length <= 3, single calls on length 4 as well
        if short:
            for j in range(0, len(progs), 39):
                shards.append((short, progs[j:j + 39], recvsizes, maxsizes, maxspecial))
        if longer:
            shards.append((longer, singles, recvsizes, maxsizes, maxspecial))
    if not quick:
        shards = []
        for s in streams:
            big = len(s) >= 5
            pp = progs if not big else [p for p in progs if len(p) == 1 or p[0][0] in ('recv_until', 'recv_size')]
            ms = maxspecial if len(s) <= 4 else 1
            for j in range(0, len(pp), 45):
                shards.append(([s], pp[j:j + 45], recvsizes, maxsizes, ms))
    # refused calls: alone, before and after every ordinary call
    rprogs = [p for r in REFUSED_CALLS for p in [(r,)] + [(r, c) for c in calls] + [(c, r) for c in calls]]
    rstreams = [x for x in streams if len(x) <= (3 if quick else 4)]
    for i in range(0, len(rstreams), 4):
        shards.append((rstreams[i:i + 4], rprogs, recvsizes, maxsizes, maxspecial if quick else 1))
    # other byte values: recv_until programs on translated streams
    ru = [c for c in calls if c[0] == 'recv_until']
    for tr in TRANSLATIONS:
        table = bytes.maketrans(b'a|-', tr)
        ru1 = [(translate_call(c, table),) for c in ru]
        ru2 = [(translate_call(a, table), translate_call(b, table)) for a in ru for b in ru]
        l1 = [x.translate(table) for x in streams if len(x) <= (3 if quick else 4)]
        l2 = [x.translate(table) for x in streams if len(x) <= (2 if quick else 3)]
        for i in range(0, len(l1), 4):
            shards.append((l1[i:i + 4], ru1, recvsizes, maxsizes, 1))
        for i in range(0, len(l2), 4):
            shards.append((l2[i:i + 4], ru2, recvsizes, maxsizes, 1))
    ctx.rng.shuffle(shards)
    inputs.run_shards(ctx, recv_shard, shards, part='receive', rule=(
        'stream x composition into chunks x timeout/clock-jump placement x recvsize x maxsize x call program; '
        'non-trivial = more than one chunk or at least one timeout'))
    # every byte value as a delimiter (alone and as the first byte of a two-byte delimiter), framed out of a stream
    # under every chunking and every single timeout / clock jump / socket error placement
    inputs.run_shards(ctx, delim_bytes_shard, [list(range(i, 256, 16)) for i in range(16)], part='delimiter-byte-values',
                      rule='recv_until(d) then recv_close() for d = every single byte value and 256 two-byte delimiters, '
                      'x composition of the stream x placement of one timeout/jump/error; default recvsize and maxsize')
    # send side
    nops = 2 if quick else 3
    sprogs = [p for n in range(1, nops + 1) for p in itertools.product(SEND_OPS, repeat=n)]
    sshards = [(sprogs[i::32], 1 if quick else 2) for i in range(32)]
    inputs.run_shards(ctx, send_shard, sshards, part='send', rule=(
        'program of send/sendall/buffer/flush calls x every sequence of accepted byte counts x timeout placements; '
        'non-trivial = at least one partial send or timeout'))
    # netstrings
    nmax = 2 if quick else 3
    pl = [b''.join(p) for p in inputs.strings(NS_ALPHABET, nmax)]
    lists = [[p] for p in pl] + [[p, q] for p in pl[:31] for q in pl[:31] if len(p) + len(q) <= 3]
    if not quick:
        lists += [[p, q, r] for p in pl[:6] for q in pl[:6] for r in pl[:6]]
    lists += [[bytes([v])] for v in range(256) if bytes([v]) not in NS_ALPHABET]      # every byte value as a payload
    nshards = [lists[i::32] for i in range(32)]
    inputs.run_shards(ctx, ns_shard, nshards, part='netstring', rule=(
        'payload list x partial-send patterns (<= 2 short answers) for write_ns, x every chunking of the wire bytes for '
        'read_ns; non-trivial = a partial send / more than one chunk'))
    inputs.run_shards(ctx, ns_maxsize_shard, [(m, n) for m in ('per-call', 'setmaxsize') for n in (9, 10, 12)],
                      part='netstring-maxsize', rule='payloads of 9-12 bytes read by a reader whose maxsize 5 is raised to '
                      '100 per call / by setmaxsize, under every chunking with <= 3 cuts and one byte at a time')
    limits = [10, 100, 1000, 10 ** 4, 10 ** 5, 10 ** 6, 16, 256, 4096, 65536] + ([] if quick else [10 ** 7, 2 ** 20, 2 ** 24])
    inputs.run_shards(ctx, ns_boundary_shard, limits, part='netstring-at-the-limit', rule=(
        'directed (not exhaustive in the chunking): maxsize a power of ten / of two given by constructor, per call and by '
        'setmaxsize; payloads of maxsize-1 and maxsize bytes; five chunkings that cut around the length prefix'))
    cov = ctx.coverage
    cov['rule'] = 'see parts; one evaluation = one execution of the real socket code against one scripted environment'
    cov['exhaustive'] = True
    cov['bounds'] = {'byte_value_translations_of_the_alphabet (recv_until programs)': [repr(x) for x in TRANSLATIONS],
                     'refused_calls': [repr(x) for x in REFUSED_CALLS] + ['send(data, 1)', 'sendall(data, MSG_OOB)'],
                     'stream_alphabet': ['a', '|', '-'], 'max_stream_len': maxlen, 'quick_two_call_programs_on_streams_up_to': 3, 'recvsize': [1, 2, 'default'],
                     'maxsize': [2, 3, 'default'], 'timeouts_per_execution': maxspecial, 'program_len': 2,
                     'send_program_len': nops, 'netstring_payload_len': nmax}
    ctx.assumptions += ['the socket is any object with recv/send/settimeout/gettimeout (as the module documents)',
                        'a call that raised Timeout is retried until it completes',
                        'a send/sendall/recv that raises ValueError for a non-zero flags argument is a refused call: its '
                        'payload is not part of the accepted stream (the caller offers it again) and it hands out nothing',
                        'read_ns is explored under all chunkings but without timeouts inside one message',
                        'a write_ns interrupted by Timeout / a socket error is completed by flush() of the underlying '
                        'BufferedSocket (what a timed-out send had accepted stays in its send buffer)']


def replay(ctx, data):
    case = data['case']

    def b(x):
        return x['bytes'].encode('latin-1') if isinstance(x, dict) else x
    sumod = su()
    saved = sumod.time
    try:
        if 'stream' in case:
            stream = b(case['stream'])
            program = [tuple(b(y) for y in c) for c in case['program']]
            items = build_items(stream, case['chunks'], [tuple(x) for x in case['specials']])
            res, prob = run_recv(stream, items, case['recvsize'], case['maxsize'], program)
            return ['%s: expected %r observed %r (call %r)' % prob] if prob else []
        if 'send_answers' in case and 'program' in case:
            program = [tuple(b(y) for y in c) for c in case['program']]
            _, prob = run_send(program, case['send_answers'], 2)
            return ['%s: expected %r observed %r (op %r)' % prob] if prob else []
        if 'payload_len' in case:
            t = ns_boundary_shard(case['maxsize'])
            return ['%s: expected %r observed %r' % (v[6], v[1], v[2]) for v in t.viols.values()]
        t = ns_shard([[b(p) for p in case['payloads']]])
        return ['%s: expected %r observed %r' % (v[6], v[1], v[2]) for v in t.viols.values()]
    finally:
        sumod.time = saved

"""C14 - strutils encoders are exactly invertible: shell quoting, integer ranges, gzip.

Engine E2 (mc.inputs): bounded exhaustive enumeration of inputs, every case executed on the real
boltons.strutils functions and compared with independent oracles:

* args2sh / escape_shell_args(style='sh'): the produced text is spliced, unmodified, into a generated script
  (`p <index> <text>`, thousands of cases per shell process) that is executed by real POSIX shells - dash and
  `bash --posix`, in the thorough tier also bash in the C.UTF-8 locale - inside a scratch directory that contains the files
  a, b, ab, with a=X and HOME=/h exported and an empty PATH.  The shell function p prints "$#" and every argument
  NUL-terminated with the printf builtin; the argument vector read back must be exactly the input list, so any glob,
  tilde, parameter, command or brace expansion, word splitting, comment, redirection or control operator shows.
  A batch that is not perfectly clean (exit status, stderr, record stream, directory listing) is re-run case by case,
  each case in its own shell process, for attribution.  shlex.split is a second, in-process oracle.
* args2cmd / escape_shell_args(style='cmd'): a reference implementation (below) of the Microsoft C runtime argv
  parser (stdargv.c parse_cmdline), in the pre-2008 and the post-2008 variant (they differ in the treatment of `""`
  inside a quoted part); both must return exactly the input list.
* format_int_list / parse_int_list / complement_int_list: set arithmetic and a reference formatter / strict parser
  (ranges are compared as runs, never expanded).  Exhaustive over small lists; besides, a stated ladder of magnitudes
  (every power of two 2**7..2**66 and power of ten 10**2..10**21 -1/+0/+1, the float-precision and machine-word limits
  published by sys, values up to 10**400) with every neighbourhood shape around each centre, under a CPU-time guard;
  delimiter variants include one that passes the optional arguments by position with regex-special delimiters.
* sh / cmd: besides the exhaustive short strings, directed large cases (hundreds of arguments, arguments of 2**k+1
  characters, long runs of quotes and backslashes).
* gzip_bytes / gunzip_bytes: identity of the round trip; gzip.decompress as independent decoder.  Besides the exhaustive
  short strings a directed (non-exhaustive) ladder of bulk sizes: powers of two -1/+0/+1 up to 4 MiB (thorough: 64 MiB)
  and the integer constants found in boltons.strutils / gzip / io with neighbours and multiples, at every level.
  Plus directed content extremes (runs of one byte, periodic and incompressible data, 64 KiB .. 16 MiB, thorough
  128 MiB) at every level: ratio-dependent behaviour (plain/compressed up to ~1027:1 and below 1:1).
* every call of a strutils function is the *last* call of a short history: a call with equal arguments whose result
  was changed in place by the caller, then failing calls of the same function (a None appended to the list / an argument
  iterator that raises at its end / malformed tail of the text / truncated gzip stream / str instead of bytes), then
  the observed call (call_after_history, applied to every callable of the module, decorator objects included).

No sampling: VERIF_SEED only chooses which cases are written out as samples.
"""
import gzip
import itertools
import os
import re
import shlex
import shutil
import subprocess
import zlib

from mc import core, inputs

PROPERTY = 'C14'
LEVEL = 'exploration'

# ------------------------------------------------------------------------------------------------------------------
# alphabets and menus

SH_ALPHA = ['a', "'", '"', '\\', ' ', '\t', '\n', '$', '`', '*', '?', '~', ';', '&', '|', '<', '>', '(', ')',
            '{', '}', '[', ']', '!', '#', '=', '%', '-', '\xe9']
CMD_ALPHA = ['a', '"', '\\', ' ', '\t', '&', '|', '^', '%', '\xe9']

CHAR_NAMES = {"'": 'squote', '"': 'dquote', '\\': 'backslash', ' ': 'space', '\t': 'tab', '\n': 'newline',
              '\r': 'cr', '$': 'dollar', '`': 'backtick', '*': 'star', '?': 'qmark', '~': 'tilde', ';': 'semicolon',
              '&': 'amp', '|': 'pipe', '<': 'lt', '>': 'gt', '(': 'lparen', ')': 'rparen', '{': 'lbrace',
              '}': 'rbrace', '[': 'lbracket', ']': 'rbracket', '!': 'bang', '#': 'hash', '=': 'equals',
              '%': 'percent', '-': 'dash', '^': 'caret', ',': 'comma'}
SH_SIGNIFICANT = set("'\"\\ \t\n\r$`*?~;&|<>(){}[]!#")
CMD_SIGNIFICANT = set('"\\ \t')

# longer, structured words (beyond the exhaustive string bound): expansions, operators, builtins, control bytes
SH_TOKENS = [
    '$a', '${a}', '"$a"', '$(echo x)', '`echo x`', '$((1+1))', '$HOME', '~', '~/a', '~root', 'a=~', 'a*', '*', '?',
    '[ab]', '[a-b]', '[!a]', '{a,b}', 'a{b,}', '{1..3}', 'a b', ' a', 'a ', 'a  b', "a'b", 'a"b', 'a\\', '\\a',
    "\\'", '\\"', '\\\\', "'", "''", "'''", '"', '""', "'\"'\"'", "'\\''", '$', '$$', '$?', '$*', '$@', '$#', '$0',
    '$1', '$-', '$!', '!', '!!', '!a', '#', '#a', 'a#', '-n', '-e', '--', '-', 'a=b', '=', ';', 'a;b', ';;', '&&',
    '||', 'a|b', '>a', '<a', '>>a', '>c', '2>&1', '<<a', '&', 'a&', '(a)', '()', '{', '}', '{}', '\n', 'a\nb', '\na',
    'a\n', '\n\n', '\r', '\r\n', '\\\n', 'a\\\nb', '\t', 'a\tb', '\x01', '\x02', '\x7f', '\x1b[0m', '\x08', '\xe9',
    'a\u0301', '\u2028', '\U0001f600', '\xa0', '\xc1', '\x81', '\x85', '%s', '%', '%%', '\\0', '\\n', '\\x41',
    '\\c', "$'a'", "$'\\n'", '$"a"', 'if', 'then', 'fi', 'done', 'exit', 'exit 1', 'set -f', 'cd /', 'p', 'IFS=a',
    'a' * 300, "'" * 40, ' ' * 40, '\\' * 41,
]
CMD_TOKENS = [
    '', 'a', 'a b', ' ', '  ', '\t', 'a\tb', '"', '""', '"""', '""""', 'a"b', 'a""b', '"a b"', '"a"', '\\', '\\\\',
    '\\\\\\', 'a\\', 'a\\\\', 'a b\\', 'a b\\\\', 'a b\\\\\\', '\\"', '\\\\"', '\\\\\\"', 'a\\"b', 'a\\\\"b',
    'a \\"b', 'a \\\\"b', '"\\', '"\\\\', ' "', '" ', ' " ', ' \\', '\\ ', '\\ \\', 'a\\ b', 'a \\b', '^', '^"', '%PATH%',
    '&', '|', 'a&b', 'C:\\Program Files\\', 'C:\\Program Files\\x\\', '\\\\server\\share\\', '\\\\server\\my share\\',
    '\n', 'a\nb', '\r\n', '\xe9', '\xe9 \xe9', '\xa0', '\u3000', '\U0001f600', "'", "'a b'", 'a' * 300, '\\' * 40,
    '\\' * 41 + '"', ' ' + '\\' * 40, '"' * 40,
]

SWEEP_EXTRA = [0x100, 0x17f, 0x300, 0x3a9, 0x5d0, 0x2000, 0x200b, 0x2028, 0x2029, 0x3000, 0xd7ff, 0xe000, 0xfeff,
               0xfffd, 0xfffe, 0xffff, 0x10000, 0x1f600, 0x10ffff]
SWEEP = [chr(c) for c in list(range(1, 0x100)) + SWEEP_EXTRA]

INT_MENU = (0, 1, 2, 3, 7, 8, 9, 10, 11, 99, 100)
INT_VARIANTS = (('default', {}), ('delim_space', {'delim_space': True}),
                ('custom-delims', {'delim': ';', 'range_delim': ':'}),
                ('special-delims-positional', {'delim': '|', 'range_delim': '.', 'delim_space': True}))
POSITIONAL = ('special-delims-positional',)      # variants whose optional arguments are passed by position
OMIT = 'omit'

BATCH = 3000                 # cases per shell process
CONFIRM_BUDGET = 200         # individual (one process per case) re-runs per shard and shell
SHELL_TIMEOUT = 300
MAX_ROUNDS = 60              # re-batching rounds after derailed scripts, per batch


class SecondCallAll:
    """Proxy of the module under test: every public callable that is not a class - plain functions and also callable
    wrapper objects such as functools.lru_cache / partial / C-implemented decorators, which inputs.SecondCallModule
    (plain functions only) lets through unwrapped - goes through call_after_history (second call + failing calls)."""

    def __init__(self, mod):
        self._mod = mod

    def __getattr__(self, name):
        v = getattr(self._mod, name)
        if callable(v) and not isinstance(v, type):
            return call_after_history(v)
        return v


_SCRAMBLE = '<changed by the caller>'
FAIL_BYTES_CAP = 1 << 16      # bulk payloads: the failing call gets a prefix of at most this many bytes


class _Boom(Exception):
    """raised by the harness' own argument iterator"""


def _raising_iter(items):
    for x in items:
        yield x
    raise _Boom('argument iterator failed')


def failing_variants(args, kwargs):
    """Argument tuples for *failing* calls made by a careless caller, derived from the first data argument:
    list -> the same list with a None appended (the function fails after it has processed every valid item) and an
    iterator over the list that raises at its end; str -> the text with a malformed tail; gzip stream -> cut short;
    other bytes -> the same content passed as str.  The calls are expected to raise; whatever they do is ignored."""
    if not args:
        return
    a, rest = args[0], tuple(args[1:])
    if isinstance(a, list):
        yield (a + [None],) + rest
        yield (_raising_iter(list(a)),) + rest
    elif isinstance(a, str):
        yield (a + ',x-;y:',) + rest
    elif isinstance(a, (bytes, bytearray)):
        b = bytes(a[:FAIL_BYTES_CAP])
        if b[:2] == b'\x1f\x8b':
            yield (b[:len(b) - max(1, min(len(b) // 3, 9))],) + rest
        else:
            yield (b.decode('latin-1'),) + rest


def call_after_history(fn):
    """Every evaluation is the last call of the history  ok-call, result changed in place by its owner, failing
    call(s) (see failing_variants; exceptions swallowed as a caller would), ok-call with equal arguments: only the
    result of the last call goes to the oracle.  Cached mutable results, memoised iterators and scratch state left behind
    by a call that raised midway then show up as ordinary oracle failures.  (inputs.second_call plus the failing step.)"""
    import types

    def wrapper(*args, **kwargs):
        one_shot = any(isinstance(a, (types.GeneratorType, map, filter, zip)) or
                       (hasattr(a, '__next__') and not hasattr(a, '__len__'))
                       for a in list(args) + list(kwargs.values()))
        if one_shot:
            return fn(*args, **kwargs)
        try:
            first = fn(*args, **kwargs)
        except Exception:
            first = None
        try:
            if hasattr(first, '__next__'):
                for _ in first:
                    pass
            elif isinstance(first, list):
                first.append(_SCRAMBLE)
                first.reverse()
            elif isinstance(first, dict):
                first[_SCRAMBLE] = _SCRAMBLE
            elif isinstance(first, (set, bytearray)):
                first.clear()
        except Exception:
            pass
        for fargs in failing_variants(args, kwargs):
            try:
                fn(*fargs, **kwargs)
            except Exception:
                pass
        return fn(*args, **kwargs)
    wrapper.__name__ = getattr(fn, '__name__', 'fn')
    return wrapper


def _su():
    # every evaluation is the last call of a short history: a call with equal arguments whose result was changed in
    # place by its owner, then calls that fail midway (see call_after_history): a result must not depend on earlier calls
    from boltons import strutils
    return SecondCallAll(strutils)


# ------------------------------------------------------------------------------------------------------------------
# reference: Microsoft C runtime command line parser (stdargv.c, parse_cmdline)

def crt_parse(cmdline, post2008):
    """argv produced by the MS C runtime for the command line string `cmdline` (program name included).

    Transcription of the documented algorithm: the program name is taken up to the next blank, or, when it starts
    with a double quote, up to the closing double quote (no backslash processing); arguments are delimited by space
    or tab outside quotes; 2N backslashes + `"` -> N backslashes and the quote toggles the quoted mode; 2N+1
    backslashes + `"` -> N backslashes and a literal `"`; backslashes not followed by `"` are literal.  A `"`
    directly followed by a second `"` *inside* a quoted part yields one literal `"`; the post-2008 runtime
    (msvcr90 and later, ucrt) stays in the quoted part, the older runtime (msvcrt.dll, VS <= 2005) leaves it."""
    s = cmdline
    n = len(s)
    argv = []
    p = 0
    # program name
    if p < n and s[p] == '"':
        p += 1
        start = p
        while p < n and s[p] != '"':
            p += 1
        argv.append(s[start:p])
        if p < n:
            p += 1
    else:
        start = p
        while p < n and s[p] not in ' \t':
            p += 1
        argv.append(s[start:p])
        if p < n:
            p += 1
    inquote = False
    while True:
        while p < n and s[p] in ' \t':
            p += 1
        if p >= n:
            break
        arg = []
        while True:
            copychar = True
            numslash = 0
            while p < n and s[p] == '\\':
                p += 1
                numslash += 1
            if p < n and s[p] == '"':
                if numslash % 2 == 0:
                    if post2008:
                        if inquote and p + 1 < n and s[p + 1] == '"':
                            p += 1                      # "" inside a quoted part: literal quote, stay quoted
                        else:
                            copychar = False
                            inquote = not inquote
                    else:
                        if inquote:
                            if p + 1 < n and s[p + 1] == '"':
                                p += 1                  # "" inside a quoted part: literal quote ...
                            else:
                                copychar = False
                        else:
                            copychar = False
                        inquote = not inquote           # ... and the quoted part ends
                numslash //= 2
            arg.append('\\' * numslash)
            if p >= n or (not inquote and s[p] in ' \t'):
                break
            if copychar:
                arg.append(s[p])
            p += 1
        argv.append(''.join(arg))
    return argv


# command lines and results from Microsoft's "Parsing C++ command-line arguments" table, plus the documented
# difference between the two runtime generations
_CRT_VECTORS = [
    ('"a b c" d e', ['a b c', 'd', 'e'], ['a b c', 'd', 'e']),
    ('"ab\\"c" "\\\\" d', ['ab"c', '\\', 'd'], ['ab"c', '\\', 'd']),
    ('a\\\\\\b d"e f"g h', ['a\\\\\\b', 'de fg', 'h'], ['a\\\\\\b', 'de fg', 'h']),
    ('a\\\\\\"b c d', ['a\\"b', 'c', 'd'], ['a\\"b', 'c', 'd']),
    ('a\\\\\\\\"b c" d e', ['a\\\\b c', 'd', 'e'], ['a\\\\b c', 'd', 'e']),
    ('a"b"" c d', ['ab"', 'c', 'd'], ['ab" c d']),
    ('"" a', ['', 'a'], ['', 'a']),
    ('"a""b" c', ['a"b c'], ['a"b', 'c']),
    ('"a"" b" c', ['a"', 'b c'], ['a" b', 'c']),
    ('', [], []),
    ('  \t ', [], []),
]


def crt_selftest():
    for text, pre, post in _CRT_VECTORS:
        for variant, want in ((False, pre), (True, post)):
            got = crt_parse('prog ' + text, variant)
            if got != ['prog'] + want:
                raise RuntimeError('CRT reference parser self-test failed: %r post2008=%s -> %r, expected %r'
                                   % (text, variant, got[1:], want))
    if crt_parse('"C:\\my dir\\prog.exe" x', True) != ['C:\\my dir\\prog.exe', 'x']:
        raise RuntimeError('CRT reference parser self-test failed (quoted program name)')
    return 2 * len(_CRT_VECTORS) + 1


# ------------------------------------------------------------------------------------------------------------------
# POSIX shell oracle

HEADER = 'p() { printf \'%s\\0\' "$#" "$@"; }\n'
FILES = ('a', 'ab', 'b')


class Shell:
    def __init__(self, name, argv, env=None):
        self.name, self.argv = name, list(argv)
        self.env = {'a': 'X', 'HOME': '/h', 'PATH': ''}
        if env:
            self.env.update(env)


def find_shells(tier):
    """Shells of the tier, a description for the evidence, and notes (fallbacks)."""
    dash, bash = shutil.which('dash'), shutil.which('bash')
    notes, shells = [], []
    if dash:
        shells.append(Shell('dash', [dash]))
    else:
        notes.append('dash not found on this machine: bash --posix is the only POSIX shell of this run')
    if not bash:
        notes.append('bash not found on this machine: dash is the only POSIX shell of this run')
    if bash:
        shells.append(Shell('bash--posix', [bash, '--posix', '--norc', '--noprofile']))
    if bash and tier == 'thorough':
        try:
            r = subprocess.run([bash, '--posix', '-c', 'printf %s "${#1}"', 'sh', '\xe9'], stdin=subprocess.DEVNULL,
                               env={'LC_ALL': 'C.UTF-8', 'PATH': ''}, capture_output=True, timeout=60)
            if r.stdout == b'1' and not r.stderr:
                shells.append(Shell('bash--posix(C.UTF-8)', [bash, '--posix', '--norc', '--noprofile'],
                                    {'LC_ALL': 'C.UTF-8'}))
            else:
                notes.append('locale C.UTF-8 not usable by bash: multibyte-locale run skipped')
        except (OSError, subprocess.SubprocessError):
            notes.append('locale C.UTF-8 probe failed: multibyte-locale run skipped')
    if not shells:
        raise RuntimeError('neither dash nor bash found: the POSIX shell oracle cannot run')
    return shells, notes


class Box:
    """Per-process sandbox: <root>/w<pid>/cwd (working directory with the files a, ab, b) and a script file that
    lives *outside* the working directory (so it cannot take part in pathname expansion)."""

    def __init__(self, root):
        self.base = os.path.join(root, 'w%d' % os.getpid())
        self.cwd = os.path.join(self.base, 'cwd')
        self.script = os.path.join(self.base, 'script.sh')
        os.makedirs(self.base, exist_ok=True)
        self.reset()

    def reset(self):
        shutil.rmtree(self.cwd, ignore_errors=True)
        os.makedirs(self.cwd)
        for f in FILES:
            with open(os.path.join(self.cwd, f), 'wb'):
                pass
            os.chmod(os.path.join(self.cwd, f), 0o644)

    def pristine(self):
        try:
            names = sorted(os.listdir(self.cwd))
            if names != sorted(FILES):
                return False
            for f in FILES:
                st = os.lstat(os.path.join(self.cwd, f))
                if st.st_size != 0 or (st.st_mode & 0o170000) != 0o100000 or (st.st_mode & 0o7777) != 0o644:
                    return False
            return True
        except OSError:
            return False

    def run(self, shell, body):
        """-> (rc, stdout, stderr); rc None = did not terminate within the (generous) limit."""
        with open(self.script, 'wb') as f:
            f.write(HEADER.encode('ascii'))
            f.write(body)
        try:
            r = subprocess.run(shell.argv + [self.script], cwd=self.cwd, env=shell.env, stdin=subprocess.DEVNULL,
                               stdout=subprocess.PIPE, stderr=subprocess.PIPE, timeout=SHELL_TIMEOUT)
            return r.returncode, r.stdout, r.stderr
        except subprocess.TimeoutExpired as e:
            return None, e.stdout or b'', e.stderr or b''


_BOXES = {}


def get_box(root):
    key = (os.getpid(), root)
    b = _BOXES.get(key)
    if b is None:
        b = _BOXES[key] = Box(root)
    return b


def parse_records(out):
    """stdout of the script -> ({index: argv (list of bytes) | 'dup'}, order of indices, well_formed)."""
    fields = out.split(b'\0')
    recs, order = {}, []
    if fields[-1] != b'':
        return recs, order, False
    fields.pop()
    pos, n = 0, len(fields)
    while pos < n:
        f = fields[pos]
        if not f.isdigit() or len(f) > 9:
            return recs, order, False
        k = int(f)
        if pos + 1 + k > n:
            return recs, order, False
        rec = fields[pos + 1:pos + 1 + k]
        pos += 1 + k
        if k >= 1 and rec[0].isdigit() and len(rec[0]) <= 9:
            i = int(rec[0])
            recs[i] = 'dup' if i in recs else rec[1:]
            order.append(i)
        else:
            return recs, order, False
    return recs, order, True


def _dec(b):
    return b.decode('utf-8', 'backslashreplace')


def run_single(box, shell, text, want):
    """One case in its own shell process and pristine directory -> None (ok) or an `observed` dict."""
    if not box.pristine():
        box.reset()
    rc, out, err = box.run(shell, b'p 0 ' + text.encode('utf-8') + b'\n')
    recs, order, wf = parse_records(out)
    dirty = not box.pristine()
    if dirty:
        box.reset()
    if rc == 0 and not err and wf and order == [0] and recs[0] == want and not dirty:
        return None
    obs = {'shell': shell.name, 'exit_status': rc if rc is not None else 'did not terminate',
           'argv': [_dec(x) for x in recs[0]] if isinstance(recs.get(0), list) else None}
    if err:
        obs['stderr'] = _dec(err[:200])
    if dirty:
        obs['directory_changed'] = True
    if not wf or order != [0]:
        obs['output'] = _dec(out[:200])
    return obs


def run_items(box, shell, items, budget):
    """items: [(text, want_argv_bytes)] -> {index: observed dict} for the failing ones.

    Fast path: one shell process for the whole batch (`p <index> <text>` per case).  If the batch is not perfectly
    clean, cases whose record is present and right are accepted, the first other case is re-run alone (own process,
    pristine directory), cases with a present but wrong record are re-run alone while the budget lasts (then the
    in-batch record is the verdict), and cases without any record (the script was derailed before them: unbalanced
    quote, `exit`, ...) are run again as a smaller batch.  budget: [remaining individual re-runs]."""
    failed = {}
    pending = list(range(len(items)))
    unexplained = None
    rounds = 0
    while pending:
        rounds += 1
        if not box.pristine():
            box.reset()
        body = b''.join(b'p %d %s\n' % (i, items[i][0].encode('utf-8')) for i in pending)
        rc, out, err = box.run(shell, body)
        recs, order, wf = parse_records(out)
        dirty = not box.pristine()
        if dirty:
            box.reset()
        bad = [i for i in pending if recs.get(i) != items[i][1]]
        if rc == 0 and not err and wf and not dirty and not bad and order == pending:
            break
        state = {'shell': shell.name, 'exit_status': rc if rc is not None else 'did not terminate',
                 'stderr': _dec(err[:200]), 'directory_changed': dirty, 'batch_inconsistent': True,
                 'note': 'batch of %d cases not clean although each suspect passes alone' % len(pending)}
        n_before = len(failed)
        if not bad:
            # every record is right, yet something wrote to stderr / changed the directory / the exit status
            for i in pending:
                if budget[0] <= 0:
                    break
                budget[0] -= 1
                obs = run_single(box, shell, *items[i])
                if obs is not None:
                    failed[i] = obs
            if len(failed) == n_before:
                unexplained = (pending[0], state)
            break
        first = bad[0]
        obs = run_single(box, shell, *items[first])
        if obs is not None:
            failed[first] = obs
        missing = []
        for i in bad[1:]:
            if not isinstance(recs.get(i), list):
                missing.append(i)
            elif budget[0] > 0:
                budget[0] -= 1
                obs = run_single(box, shell, *items[i])
                if obs is not None:
                    failed[i] = obs
            else:
                failed[i] = {'shell': shell.name, 'argv': [_dec(x) for x in recs[i]],
                             'note': 'observed inside a batch of %d cases (per-case re-run budget used up)'
                                     % len(pending)}
        if len(failed) == n_before and unexplained is None:
            unexplained = (first, state)
        if rounds >= MAX_ROUNDS:
            for i in missing:
                failed[i] = {'shell': shell.name, 'argv': None, 'unattributed': True,
                             'note': 'no record for this case in a failing batch; %d re-batching rounds used up'
                                     % MAX_ROUNDS}
            break
        pending = missing
    if unexplained is not None and not failed:
        failed[unexplained[0]] = unexplained[1]
    return failed


def shell_selftest(box, shells):
    """The oracle must *see* expansions: unquoted texts are run and must expand as POSIX says."""
    probes = [('*', ['a', 'ab', 'b']), ('a?', ['ab']), ('[a]', ['a']), ('$a', ['X']), ('~', ['/h']),
              ('a  b', ['a', 'b']), ('`printf a`', ['a']), ('a #b', ['a']), ("'a b' ''", ['a b', '']),
              ("'*' \"\\$a\" \\~", ['*', '$a', '~']), ('', [])]
    n = 0
    for sh in shells:
        items = [(t, [x.encode() for x in w]) for t, w in probes]
        bad = run_items(box, sh, items, [0])
        if bad:
            raise RuntimeError('shell oracle self-test failed for %s: %r' % (sh.name, bad))
        # and the attribution path must flag a wrong expectation and a syntax error
        bad = run_items(box, sh, [('a', [b'a']), ('*', [b'*']), ("'a", [b'a']), ('b', [b'b']), ('>c', [])], [10])
        if sorted(bad) != [1, 2, 4]:
            raise RuntimeError('shell oracle self-test (attribution) failed for %s: %r' % (sh.name, bad))
        n += len(probes) + 5
        # the in-process quoting reference (posix_words) must agree with the real shell wherever it gives words
        items = []
        for t in inputs.texts(['a', "'", '"', '\\', ' ', '\t', '$', '#'], 4):
            words = posix_words(t)[0]
            if isinstance(words, list):
                items.append((t, [w.encode() for w in words]))
        bad = run_items(box, sh, items, [20])
        if bad:
            i = sorted(bad)[0]
            raise RuntimeError('quoting reference disagrees with %s on %r: %r' % (sh.name, items[i][0], bad[i]))
        n += len(items)
    return n


# ------------------------------------------------------------------------------------------------------------------
# case generators (every shard argument is a small tuple; the cases are generated inside the worker)

def gen_strings(alpha, maxlen, prefix):
    """All strings over alpha of length <= maxlen that start with prefix (shortest first)."""
    for n in range(0, maxlen - len(prefix) + 1):
        for t in itertools.product(alpha, repeat=n):
            yield prefix + ''.join(t)


def gen_cases(spec):
    kind = spec[0]
    alpha = SH_ALPHA if spec[1] == 'sh' else CMD_ALPHA
    if kind == 'short':                      # single-argument lists, strings up to the shard depth (simplest first)
        _, _, depth = spec
        for n in range(depth + 1):
            for t in itertools.product(alpha, repeat=n):
                yield [''.join(t)]
    elif kind == 'prefix':                   # single-argument lists, all longer strings <= maxlen with this prefix
        _, _, prefix, maxlen = spec
        for s in gen_strings(alpha, maxlen, prefix):
            if len(s) > len(prefix):
                yield [s]
    elif kind == 'empty':
        yield []
    elif kind == 'pairs':                    # [x, y] for all y of length <= k
        _, _, x, k = spec
        for y in gen_strings(alpha, k, ''):
            yield [x, y]
    elif kind == 'triples':
        _, _, x = spec
        base = [''] + alpha
        for y in base:
            for z in base:
                yield [x, y, z]
    elif kind == 'extra':                    # slice of the de-duplicated token / code-point-sweep lists
        _, _, lo, hi, maxlen, pair_len = spec
        for args in extra_cases(spec[1], maxlen, pair_len)[lo:hi]:
            yield args
    else:
        raise AssertionError(spec)


def string_shards(fam, maxlen, depth):
    alpha = SH_ALPHA if fam == 'sh' else CMD_ALPHA
    out = [('empty', fam), ('short', fam, depth)]
    for t in itertools.product(alpha, repeat=depth):
        out.append(('prefix', fam, ''.join(t), maxlen))
    return out


_EXTRA = {}


def extra_cases(fam, maxlen, pair_len):
    """Token lists (every token alone, every ordered pair) and the code-point sweep (8 contexts per code point),
    without repetitions and without the lists the exhaustive string enumerations already contain."""
    key = (fam, maxlen, pair_len)
    if key in _EXTRA:
        return _EXTRA[key]
    alpha = set(SH_ALPHA if fam == 'sh' else CMD_ALPHA)
    tokens = SH_TOKENS if fam == 'sh' else CMD_TOKENS
    q = "'" if fam == 'sh' else '"'

    def over(s, k):
        return len(s) <= k and alpha.issuperset(s)

    def covered(args):
        if len(args) == 1:
            return over(args[0], maxlen)
        if len(args) == 2:
            return over(args[0], pair_len) and over(args[1], pair_len)
        return False
    seen, out = set(), []

    def put(args):
        k = tuple(args)
        if k not in seen and not covered(args):
            seen.add(k)
            out.append(list(args))
    for x in tokens:
        put([x])
    for x in tokens:
        for y in tokens:
            put([x, y])
    for c in SWEEP:
        for args in ([c], ['a' + c], [c + 'a'], ['a' + c + 'a'], [c, c], [q + c], [c + '\\'], ['\\' + c + q]):
            put(args)
    for args in scale_cases(fam):
        put(args)
    _EXTRA[key] = out
    return out


SCALE_LIST_LENGTHS = (257, 1025)
SCALE_ARG_LENGTHS = (257, 4097, 65537)
SCALE_RUN_LENGTHS = (257, 4097)


def scale_cases(fam):
    """Directed (not exhaustive) large cases: many arguments, long arguments, long runs of the quote character and of
    backslashes - sizes one above powers of two that a chunked or buffered encoder might use."""
    alpha = SH_ALPHA if fam == 'sh' else CMD_ALPHA
    tokens = SH_TOKENS if fam == 'sh' else CMD_TOKENS
    q = "'" if fam == 'sh' else '"'
    out = [list(tokens)]                                                  # every token, one list
    for n in SCALE_LIST_LENGTHS:
        out.append([alpha[i % len(alpha)] * (i % 3) for i in range(n)])   # every third argument is empty
    unit = ''.join(alpha)
    for n in SCALE_ARG_LENGTHS:
        out.append([(unit * (n // len(unit) + 1))[:n]])
    for n in SCALE_RUN_LENGTHS:
        out += [[q * n], ['\\' * n + q], ['a ' + '\\' * n], ['\\' * n, q]]
    return out


def small_sample(sample):
    """Samples are written into the evidence file: leave the bulky cases out."""
    return sample if sum(len(a) + 1 for a in sample['args']) <= 400 else None


def list_shards(fam, pair_len, maxlen):
    alpha = SH_ALPHA if fam == 'sh' else CMD_ALPHA
    out = [('pairs', fam, x, pair_len) for x in gen_strings(alpha, pair_len, '')]
    out += [('triples', fam, x) for x in [''] + alpha]
    n = len(extra_cases(fam, maxlen, pair_len))
    out += [('extra', fam, lo, min(lo + 1000, n), maxlen, pair_len) for lo in range(0, n, 1000)]
    return out


def char_tags(args, significant):
    tags = set()
    for a in args:
        if a == '':
            tags.add('empty-arg')
        for c in a:
            if c in significant:
                tags.add('char:' + CHAR_NAMES.get(c, 'U+%04X' % ord(c)))
            elif ord(c) > 0x7e:
                tags.add('char:non-ascii')
            elif ord(c) < 0x20:
                tags.add('char:control')
    tags.add('args:%s' % (len(args) if len(args) < 3 else '3+'))
    return sorted(tags)


# ------------------------------------------------------------------------------------------------------------------
# sh family

SH_FUNCS = ('args2sh', 'escape_shell_args(style=sh)')
CMD_FUNCS = ('args2cmd', 'escape_shell_args(style=cmd)')


def call_encoder(fn, args):
    su = _su()
    try:
        if fn == 'args2sh':
            r = su.args2sh(list(args))
        elif fn == 'args2cmd':
            r = su.args2cmd(list(args))
        elif fn == 'escape_shell_args(style=sh)':
            r = su.escape_shell_args(list(args), style='sh')
        elif fn == 'escape_shell_args(style=cmd)':
            r = su.escape_shell_args(list(args), style='cmd')
        else:
            raise AssertionError(fn)
    except Exception as e:
        return None, 'raised %s: %s' % (type(e).__name__, str(e)[:80])
    if not isinstance(r, str):
        return None, 'returned %s' % type(r).__name__
    if '\0' in r:
        return None, 'text contains NUL'
    return r, None


def sh_nontrivial(args):
    return any(a == '' or not SH_SIGNIFICANT.isdisjoint(a) for a in args)


_DOLLAR_EXPANDS = set('abcdefghijklmnopqrstuvwxyzABCDEFGHIJKLMNOPQRSTUVWXYZ0123456789_{(@*#?-$!')


def posix_words(text):
    """Reference for the part of POSIX sh word recognition that holds in *every* environment: quote removal (XCU 2.2:
    backslash, single quotes, double quotes) and splitting at unquoted blanks.  Returns (words, shlex_comparable):
    words is the list of words; or a string naming an unquoted construct that every POSIX shell treats specially
    (operator, parameter/command expansion, comment, unterminated quote); or None where POSIX leaves the result
    unspecified ($' and $", trailing backslash).  Pathname, tilde and brace expansion depend on the environment /
    the shell and are left to the real shells.  shlex_comparable is False when the text uses a form on which
    shlex.split deviates from POSIX (backslash inside double quotes before a dollar sign, backquote or newline;
    backslash-newline)."""
    words, cur, i, n, cmp_ok = [], None, 0, len(text), True
    while i < n:
        c = text[i]
        if c == "'":
            j = text.find("'", i + 1)
            if j < 0:
                return 'unterminated single quote', cmp_ok
            cur = (cur or '') + text[i + 1:j]
            i = j + 1
        elif c == '"':
            cur = cur or ''
            i += 1
            while True:
                if i >= n:
                    return 'unterminated double quote', cmp_ok
                d = text[i]
                if d == '"':
                    i += 1
                    break
                if d == '\\':
                    nxt = text[i + 1:i + 2]
                    if nxt and nxt in '$`"\\':
                        cur += nxt
                        i += 2
                        if nxt in '$`':
                            cmp_ok = False
                    elif nxt == '\n':
                        i += 2
                        cmp_ok = False
                    else:
                        cur += d
                        i += 1
                elif d == '`' or (d == '$' and text[i + 1:i + 2] in _DOLLAR_EXPANDS and text[i + 1:i + 2]):
                    return 'expansion inside double quotes', cmp_ok
                else:
                    cur += d
                    i += 1
        elif c == '\\':
            if i + 1 >= n:
                return None, cmp_ok
            if text[i + 1] == '\n':
                cmp_ok = False
            else:
                cur = (cur or '') + text[i + 1]
            i += 2
        elif c in ' \t':
            if cur is not None:
                words.append(cur)
                cur = None
            i += 1
        elif c in '\n;&|<>()':
            return 'unquoted operator or newline', cmp_ok
        elif c == '`':
            return 'unquoted command substitution', cmp_ok
        elif c == '$':
            nxt = text[i + 1:i + 2]
            if nxt and nxt in _DOLLAR_EXPANDS:
                return 'unquoted expansion', cmp_ok
            if nxt and nxt in '\'"':
                return None, cmp_ok
            cur = (cur or '') + c
            i += 1
        elif c == '#' and cur is None:
            return 'unquoted comment', cmp_ok
        else:
            cur = (cur or '') + c
            i += 1
    if cur is not None:
        words.append(cur)
    return words, cmp_ok


def shlex_words(text):
    lex = shlex.shlex(text, posix=True)
    lex.whitespace_split = True
    lex.whitespace = ' \t\n'          # the shell's token separators (shlex's default also has \r)
    lex.commenters = ''
    try:
        return list(lex)
    except ValueError as e:
        return 'shlex raised ValueError: %s' % e


def sh_static(fn, args):
    """-> (text or None, [(sig, expected, observed)]) : exceptions, the quoting reference and shlex."""
    text, err = call_encoder(fn, args)
    if err:
        return None, [('C14|fn:%s|returns text' % fn, 'a str', err)]
    v = []
    ref, comparable = posix_words(text)
    if ref is not None and ref != list(args):
        v.append(('C14|fn:%s|posix quoting rules (reference splitter)' % fn, list(args), {'text': text, 'words': ref}))
    if comparable and ref is not None:
        back = shlex_words(text)
        if back != list(args):
            v.append(('C14|fn:%s|shlex.split' % fn, list(args), {'text': text, 'shlex': back}))
    return text, v


def sh_shard_fn(root, shells):
    def shard(spec):
        t = inputs.Tally()
        box = get_box(root)
        items, meta = [], []           # items for the shells; meta[i] = (args, [functions producing that text])
        for args in gen_cases(spec):
            t.count(nontrivial=sh_nontrivial(args), sample=small_sample({'family': 'sh', 'args': args}))
            seen = {}
            for fn in SH_FUNCS:
                text, viols = sh_static(fn, args)
                t.add('comparisons(shlex, reference splitter)', 2)
                for sig, exp, obs in viols:
                    t.bad(sig, {'family': 'sh', 'fn': fn, 'args': args}, exp, obs, tags=char_tags(args, SH_SIGNIFICANT))
                if text is None:
                    continue
                if text in seen:
                    meta[seen[text]][1].append(fn)
                else:
                    seen[text] = len(items)
                    items.append((text, [a.encode('utf-8') for a in args]))
                    meta.append((args, [fn]))
        for sh in shells:
            budget = [CONFIRM_BUDGET]
            for lo in range(0, len(items), BATCH):
                chunk = items[lo:lo + BATCH]
                t.add('shell_processes(%s)' % sh.name)
                t.add('comparisons(%s)' % sh.name, len(chunk))
                for i, obs in sorted(run_items(box, sh, chunk, budget).items()):
                    args, fns = meta[lo + i]
                    obs = dict(obs, text=chunk[i][0])
                    for fn in fns:
                        if obs.get('unattributed'):
                            sig = 'C14|fn:%s|shell batch failed, case not attributed' % fn
                        elif obs.get('batch_inconsistent'):
                            sig = 'C14|fn:%s|shell batch not clean' % fn
                        else:
                            sig = 'C14|fn:%s|posix shell argv' % fn
                        t.bad(sig, {'family': 'sh', 'fn': fn, 'args': args}, list(args), obs,
                              tags=char_tags(args, SH_SIGNIFICANT) + ['shell:' + sh.name])
        return t
    return shard


# ------------------------------------------------------------------------------------------------------------------
# cmd family

def cmd_nontrivial(args):
    return any(a == '' or not CMD_SIGNIFICANT.isdisjoint(a) for a in args)


def cmd_eval(fn, args):
    """-> [(sig, expected, observed)]"""
    text, err = call_encoder(fn, args)
    if err:
        return [('C14|fn:%s|returns text' % fn, 'a str', err)]
    v = []
    for post, name in ((True, 'post-2008'), (False, 'pre-2008')):
        got = crt_parse('prog ' + text, post)
        if got != ['prog'] + list(args):
            v.append(('C14|fn:%s|ms-crt(%s) argv' % (fn, name), list(args), {'text': text, 'argv': got[1:]}))
    return v


def cmd_shard(spec):
    t = inputs.Tally()
    for args in gen_cases(spec):
        t.count(nontrivial=cmd_nontrivial(args), sample=small_sample({'family': 'cmd', 'args': args}))
        for fn in CMD_FUNCS:
            t.add('comparisons(crt pre-2008 + post-2008)', 2)
            for sig, exp, obs in cmd_eval(fn, args):
                t.bad(sig, {'family': 'cmd', 'fn': fn, 'args': args}, exp, obs, tags=char_tags(args, CMD_SIGNIFICANT))
    return t


# ------------------------------------------------------------------------------------------------------------------
# integer lists

def ref_runs(values):
    runs = []
    for x in sorted(set(values)):
        if runs and x == runs[-1][1] + 1:
            runs[-1][1] = x
        else:
            runs.append([x, x])
    return runs


def ref_format(values, delim=',', range_delim='-', delim_space=False):
    toks = ['%d' % lo if lo == hi else '%d%s%d' % (lo, range_delim, hi) for lo, hi in ref_runs(values)]
    return (delim + ' ' if delim_space else delim).join(toks)


_NUM = re.compile(r'\A[0-9]+\Z')


def ref_parse(text, delim=',', range_delim='-'):
    """Strict reader of range strings -> list of tokens [(lo, hi, raw_lo, raw_hi)] or None if malformed.
    One optional blank after a delimiter is accepted (delim_space)."""
    if not isinstance(text, str):
        return None
    if text == '':
        return []
    toks = []
    for i, tok in enumerate(text.split(delim)):
        if i and tok.startswith(' '):
            tok = tok[1:]
        parts = tok.split(range_delim)
        if len(parts) not in (1, 2) or not all(_NUM.match(p) for p in parts):
            return None
        lo, hi = int(parts[0]), int(parts[-1])
        if hi < lo:
            return None
        toks.append((lo, hi, len(parts)))
    return toks


def toks_runs(toks):
    """Maximal runs [[lo, hi], ...] of the set of integers that the tokens denote (no range is expanded: a token may
    span 2**60 integers when the code under test mangles a large limit)."""
    runs = []
    for lo, hi in sorted((lo, hi) for lo, hi, _ in toks):
        if runs and lo <= runs[-1][1] + 1:
            runs[-1][1] = max(runs[-1][1], hi)
        else:
            runs.append([lo, hi])
    return runs


def toks_count(toks):
    """Number of integers the tokens list one by one (an integer listed twice counts twice)."""
    return sum(hi - lo + 1 for lo, hi, _ in toks)


def int_tags(L):
    tags = []
    s = sorted(set(L))
    if len(s) != len(L):
        tags.append('duplicates')
    if list(L) != sorted(L):
        tags.append('unsorted')
    runs = ref_runs(L)
    if any(hi == lo + 1 for lo, hi in runs):
        tags.append('run-of-2')
    if any(hi > lo + 1 for lo, hi in runs):
        tags.append('run-of-3+')
    if not L:
        tags.append('empty')
    return tags


def int_eval(L, vname, kw):
    """format/parse round trip and canonical form of one list under one delimiter variant."""
    su = _su()
    v = []
    want = sorted(set(L))
    pkw = {k: kw[k] for k in ('delim', 'range_delim') if k in kw}
    shape = 'C14|fn:%%s(%s)|%%s' % vname
    try:
        if vname in POSITIONAL:
            text = su.format_int_list(list(L), kw['delim'], kw['range_delim'], kw['delim_space'])
        else:
            text = su.format_int_list(list(L), **kw)
    except Exception as e:
        return [(shape % ('format_int_list', 'returns text'), 'a str', 'raised %s: %s' % (type(e).__name__, e))]
    if not isinstance(text, str):
        return [(shape % ('format_int_list', 'returns text'), 'a str', 'returned %r' % (text,))]
    canon = ref_format(L, **kw)
    toks = ref_parse(text, **pkw)
    denotes_want = toks is not None and toks_runs(toks) == ref_runs(want)       # the text denotes the set of L
    # (1) parse(format(L)) == sorted(set(L))
    try:
        if vname in POSITIONAL:
            back = su.parse_int_list(text, kw['delim'], kw['range_delim'])
        else:
            back = su.parse_int_list(text, **pkw)
    except Exception as e:
        back = 'raised %s: %s' % (type(e).__name__, e)
    if back != want:
        back = _short(back)
        if denotes_want:
            # the text denotes the right set; the reader is at fault
            v.append((shape % ('parse_int_list', 'value of format_int_list output'), want,
                      {'text': text, 'parse_int_list': back}))
        else:
            v.append((shape % ('format_int_list', 'round trip through parse_int_list'), want,
                      {'text': text, 'parse_int_list': back}))
    # (2) canonical form
    if text != canon:
        if toks is None:
            what = 'well-formed range string'
        elif not denotes_want:
            what = 'denotes the set of L'
        elif any(n == 2 and lo == hi for lo, hi, n in toks):
            what = 'canonical: no a-a token'
        elif any(b[0] <= a[1] + 1 for a, b in zip(toks, toks[1:])):
            what = 'canonical: maximal ranges, ascending, disjoint'
        elif any(n == 1 and hi != lo for lo, hi, n in toks):
            what = 'canonical'
        else:
            what = 'canonical: spelling of tokens'
        v.append((shape % ('format_int_list', what), canon, text))
    return v


def int_shard(spec):
    kind = spec[0]
    t = inputs.Tally()
    if kind == 'subsets':                                    # subsets of 0..n-1 whose highest bits are `high`
        _, n, high, highbits = spec
        lists = []
        for m in range(1 << (n - highbits)):
            mask = (high << (n - highbits)) | m
            lists.append([i for i in range(n) if mask >> i & 1])
    else:                                  # all lists of length <= k over INT_MENU starting with `first`, except
        _, first, k, sub_n = spec          # those the subset enumeration already contains (strictly ascending, < sub_n)
        lists = [[first] + list(r) for n in range(0, k) for r in itertools.product(INT_MENU, repeat=n)]
        lists = [L for L in lists if not (max(L) < sub_n and all(a < b for a, b in zip(L, L[1:])))]
    for L in lists:
        tags = int_tags(L)
        t.count(nontrivial=bool(set(tags) & {'duplicates', 'run-of-2', 'run-of-3+'}),
                sample={'family': 'int', 'list': L})
        for vname, kw in INT_VARIANTS:
            t.add('comparisons(format/parse)')
            for sig, exp, obs in int_eval(L, vname, kw):
                t.bad(sig, {'family': 'int', 'list': L, 'variant': vname}, exp, obs, tags=tags)
    return t


def window_values(L, start, end):
    """Expected complement, or None where the statement does not define the window (no end, no maximum)."""
    s = 0 if start == OMIT else start
    if end in (OMIT, None):
        if not L:
            return None
        e = max(L) + 1
    else:
        e = end
    return sorted(set(range(s, e)) - set(L))


COMPL_VARIANTS = (('default', {}), ('custom-delims', {'delim': ';', 'range_delim': ':'}),
                  ('special-delims-positional', {'delim': '|', 'range_delim': '.'}))


def tokens_text(tokens, delim=',', range_delim='-'):
    """Range string spelled token by token: (lo, hi, 1) -> 'lo', (lo, hi, 2) -> 'lo-hi' (lo <= hi)."""
    return delim.join('%d' % lo if n == 1 else '%d%s%d' % (lo, range_delim, hi) for lo, hi, n in tokens)


def tokens_values(tokens):
    """The integers that a token list denotes (set semantics; small tokens only)."""
    s = set()
    for lo, hi, _ in tokens:
        s.update(range(lo, hi + 1))
    return sorted(s)


def complement_eval(L, start, end, vname='default', tokens=None):
    """tokens: the range string is spelled from these tokens (any order, overlapping, repeated) and L is the set
    they denote; otherwise the range string is the canonical text of L."""
    su = _su()
    want = window_values(L, start, end)
    if want is None:
        return []
    dk = dict(COMPL_VARIANTS)[vname]
    rs = ref_format(L, **dk) if tokens is None else tokens_text(tokens, **dk)
    kw = dict(dk)
    pos = [rs]
    if vname in POSITIONAL:                  # as many leading arguments by position as the case spells out
        if start != OMIT:
            pos.append(start)
            if end != OMIT:
                pos += [end, kw.pop('delim'), kw.pop('range_delim')]
        elif end != OMIT:
            kw['range_end'] = end
    else:
        if start != OMIT:
            kw['range_start'] = start
        if end != OMIT:
            kw['range_end'] = end
    try:
        out = su.complement_int_list(*pos, **kw)
    except Exception as e:
        return [('C14|fn:complement_int_list(%s)|returns text' % vname, 'a str',
                 'raised %s: %s' % (type(e).__name__, e))]
    toks = ref_parse(out, **dk)
    if toks is None:
        return [('C14|fn:complement_int_list(%s)|well-formed range string' % vname, ref_format(want, **dk),
                 {'range_string': rs, 'returned': out})]
    if toks_runs(toks) != ref_runs(want) or toks_count(toks) != len(want):      # exactly those, each listed once
        return [('C14|fn:complement_int_list(%s)|missing integers of the window' % vname, ref_format(want, **dk),
                 {'range_string': rs, 'returned': out})]
    return []


def complement_shard(spec):
    _, n, high, highbits, wmax = spec
    t = inputs.Tally()
    starts = [OMIT] + list(range(0, wmax + 1))
    ends = [OMIT, None] + list(range(0, wmax + 1))
    for m in range(1 << (n - highbits)):
        mask = (high << (n - highbits)) | m
        L = [i for i in range(n) if mask >> i & 1]
        for s in starts:
            for e in ends:
                want = window_values(L, s, e)
                if want is None:
                    t.add('skipped(no end, empty list)')
                    continue
                tags = []
                if s == OMIT:
                    tags.append('start-omitted')
                if e in (OMIT, None):
                    tags.append('end-omitted')
                elif (0 if s == OMIT else s) >= e:
                    tags.append('empty-window')
                for vname, _ in COMPL_VARIANTS:
                    if vname in POSITIONAL and high:
                        continue            # call spelling, not values: the lists below n - highbits suffice
                    case = {'family': 'complement', 'list': L, 'range_start': s, 'range_end': e, 'variant': vname}
                    t.count(nontrivial=bool(want) and bool(L), sample=case)
                    for sig, exp, obs in complement_eval(L, s, e, vname):
                        t.bad(sig, case, exp, obs, tags=tags)
    return t


# complement_int_list takes a *range string* ("comma separated positive integers or ranges ... typical of a custom page
# range string used in printer dialogs"), i.e. text that a person typed, not only what format_int_list prints.  The
# statement's clause ("exactly the missing integers of the requested window") does not restrict the spelling, so every
# string over a small grammar is enumerated: tokens v and lo-hi (lo <= hi, lo-lo included) over 0..n, up to k tokens in
# any order - unsorted, overlapping, nested, adjacent, repeated.  Only spellings whose meaning is not open to
# interpretation are used: no reversed ranges, blanks, empty tokens, signs or leading zeros.  Reference: set arithmetic.

def range_string_tokens(n):
    return [(v, v, 1) for v in range(n + 1)] + [(lo, hi, 2) for lo in range(n + 1) for hi in range(lo, n + 1)]


def range_string_tags(tokens):
    """One class per string (the first that applies), so that a defect groups into few (signature, tags) entries."""
    pairs = [(a, b) for i, a in enumerate(tokens) for b in tokens[i + 1:]]
    if any(a[:2] != b[:2] and ((a[0] <= b[0] and b[1] <= a[1]) or (b[0] <= a[0] and a[1] <= b[1])) for a, b in pairs):
        kind = 'nested'
    elif any(a[0] < b[0] <= a[1] < b[1] or b[0] < a[0] <= b[1] < a[1] for a, b in pairs):
        kind = 'overlapping'
    elif any(a[:2] == b[:2] for a, b in pairs):
        kind = 'repeated-token'
    elif any(n == 2 and lo == hi for lo, hi, n in tokens):
        kind = 'lo-lo'
    elif any(a[1] + 1 == b[0] or b[1] + 1 == a[0] for a, b in pairs):
        kind = 'adjacent'
    elif [t[:2] for t in tokens] != sorted(t[:2] for t in tokens):
        kind = 'unsorted'
    else:
        kind = 'canonical'
    return ['range-string', 'range-string:' + kind]


def complement_strings_shard(spec):
    _, first, n, lengths, wmax, variants = spec
    t = inputs.Tally()
    menu = range_string_tokens(n)
    starts = [OMIT] + list(range(0, wmax + 1))
    ends = [OMIT, None] + list(range(0, wmax + 1))
    for length in lengths:
        for rest in itertools.product(menu, repeat=length - 1):
            tokens = [list(first)] + [list(x) for x in rest]
            L = tokens_values(tokens)
            plain = tokens_text(tokens) == ref_format(L)
            for vname in variants:
                for s in starts:
                    for e in ends:
                        want = window_values(L, s, e)
                        case = {'family': 'complement', 'tokens': tokens, 'range_start': s, 'range_end': e,
                                'variant': vname}
                        t.count(nontrivial=bool(want) and not plain, sample=case)
                        for sig, exp, obs in complement_eval(L, s, e, vname, tokens):
                            t.bad(sig, case, exp, obs, tags=range_string_tags(tokens))
    return t


# ------------------------------------------------------------------------------------------------------------------
# integer lists: magnitudes.  The statement quantifies over all non-negative integers; the exhaustive parts above stay
# below 101.  Thresholds at which an implementation may change behaviour (small-int cache, digit counts, machine words,
# float precision, 64-bit arithmetic) are straddled by a ladder of centres, with every shape of neighbourhood around them.

class CpuLimit(BaseException):
    pass


def cpu_guarded(seconds, fn, *args):
    """fn(*args) under a budget of *CPU* seconds of this process (ITIMER_VIRTUAL: independent of the machine load).
    A mangled large limit can turn 'lo-hi' into a range of 2**30 integers; the checker must not hang on it."""
    import signal

    def on_alarm(signum, frame):
        raise CpuLimit()
    old = signal.signal(signal.SIGVTALRM, on_alarm)
    signal.setitimer(signal.ITIMER_VIRTUAL, seconds)
    try:
        return fn(*args)
    finally:
        signal.setitimer(signal.ITIMER_VIRTUAL, 0)
        signal.signal(signal.SIGVTALRM, old)


EVAL_CPU_LIMIT = 120
MAG_OFFSETS = (0, 1, 2, 4)          # all non-empty subsets: single, run of 2, run of 3, gaps
MAG_SHAPES = ('plain', 'after-small', 'reversed-dup')
MAG_SMALL = (0, 1, 5)


def magnitude_centres():
    """Every power of two from 2**7 to 2**66 and every power of ten from 10**2 to 10**21, each -1/+0/+1; the limits
    that Python itself publishes (sys.maxsize, the float mantissa width, float max, the unsigned word); and a few
    values far beyond any machine word."""
    import sys
    c = set()
    for k in range(7, 67):
        c.update((2 ** k - 1, 2 ** k, 2 ** k + 1))
    for k in range(2, 22):
        c.update((10 ** k - 1, 10 ** k, 10 ** k + 1))
    m = sys.float_info.mant_dig
    c.update((2 ** m + 1, 2 ** m + 3, 2 ** (m + 1) + 2, 2 ** (m + 2) + 4, 3 * 2 ** m + 1))   # not representable as floats
    c.update((sys.maxsize - 2, sys.maxsize, 2 * sys.maxsize + 1, 2 * sys.maxsize + 2))
    c.update((10 ** 23 + 1, 2 ** 100 + 1, 2 ** 128 - 1, 10 ** 30 + 1, 10 ** 40 + 7,
              int(sys.float_info.max) + 1, 10 ** 400 + 1))
    return sorted(c)


def magnitude_lists(c):
    for r in range(1, len(MAG_OFFSETS) + 1):
        for offs in itertools.combinations(MAG_OFFSETS, r):
            base = [c + o for o in offs]
            for shape in MAG_SHAPES:
                if shape == 'plain':
                    yield shape, base
                elif shape == 'after-small':
                    yield shape, list(MAG_SMALL) + base
                else:
                    yield shape, base[::-1] + [base[-1]] + [MAG_SMALL[-1]]


def magnitude_tags(L):
    import sys
    tags = int_tags(L)
    m = max(L)
    if m > 2 ** sys.float_info.mant_dig:
        tags.append('above-float-precision')
    if m > sys.maxsize:
        tags.append('above-machine-word')
    return tags


def longrun_lists(n):
    """One contiguous run of n integers (the quantity a scratch buffer of the formatter scales with), alone, with a
    detached neighbour on either side, and presented in descending order."""
    for a in (0, 5):
        run = list(range(a, a + n))
        yield 'run', run
        yield 'run-descending', run[::-1]
        yield 'run+detached', [a + n + 1] + run + [a + n + 3, a + n + 4]


def int_longrun_shard(spec):
    _, lengths = spec
    t = inputs.Tally()
    for n in lengths:
        for shape, L in longrun_lists(n):
            t.count(nontrivial=True, sample={'family': 'int', 'shape': shape, 'run_length': n, 'first': L[0]})
            now = [None]

            def all_variants():
                out = []
                for vname, kw in MAG_VARIANTS:
                    now[0] = vname
                    out += [(vname,) + v for v in int_eval(L, vname, kw)]
                return out
            t.add('comparisons(format/parse)', len(MAG_VARIANTS))
            try:
                viols = cpu_guarded(4 * EVAL_CPU_LIMIT, all_variants)
            except (CpuLimit, MemoryError) as ex:
                viols = [(now[0], 'C14|fn:format_int_list/parse_int_list(%s)|long-run|terminates' % now[0], 'a result',
                          'no result: %s' % type(ex).__name__)]
            for vname, sig, exp, obs in viols:
                t.bad(sig,
                      {'family': 'int', 'shape': shape, 'run_length': n, 'first': L[0], 'variant': vname},
                      str(exp)[:200], str(obs)[:200], tags=['long-run'])
    return t


MAG_VARIANTS = tuple((v, kw) for v, kw in INT_VARIANTS if v != 'delim_space')    # the last variant has delim_space too


def int_magnitude_shard(spec):
    _, centres = spec
    t = inputs.Tally()
    for c in centres:
        for shape, L in magnitude_lists(c):
            tags = magnitude_tags(L)
            t.count(nontrivial=bool(set(tags) & {'duplicates', 'run-of-2', 'run-of-3+'}),
                    sample={'family': 'int', 'list': L})
            now = [None]

            def all_variants():
                out = []
                for vname, kw in MAG_VARIANTS:
                    now[0] = vname
                    out += [(vname,) + v for v in int_eval(L, vname, kw)]
                return out
            t.add('comparisons(format/parse)', len(MAG_VARIANTS))
            try:
                viols = cpu_guarded(EVAL_CPU_LIMIT, all_variants)
            except (CpuLimit, MemoryError) as ex:
                viols = [(now[0], 'C14|fn:format_int_list/parse_int_list(%s)|terminates' % now[0], 'a result',
                          'no result: %s' % ('%d s of CPU time used up' % EVAL_CPU_LIMIT
                                             if isinstance(ex, CpuLimit) else 'MemoryError'))]
            for vname, sig, exp, obs in viols:
                t.bad(sig, {'family': 'int', 'list': L, 'variant': vname}, exp, obs, tags=tags)
    return t


# complement_int_list materialises range(range_end): windows stay below COMPL_MAG_TOP (cost, not a limit of the statement)
COMPL_MAG_TOP = 70000
COMPL_MAG_BOTH = 5000               # centres below: both variants; above: default only
COMPL_MAG_OFFSETS = (0, 1, 3)


def complement_magnitude_centres():
    c = set()
    for k in range(7, 15):
        c.update((2 ** k - 1, 2 ** k, 2 ** k + 1))
    for k in range(2, 5):
        c.update((10 ** k - 1, 10 ** k, 10 ** k + 1))
    c.add(2 ** 16 + 1)
    return sorted(x for x in c if x + 8 <= COMPL_MAG_TOP)


def complement_magnitude_cases(c):
    for r in range(0, len(COMPL_MAG_OFFSETS) + 1):
        for offs in itertools.combinations(COMPL_MAG_OFFSETS, r):
            L = [c + o for o in offs]
            for s, e in ((c - 2, c + 6), (c, None), (c + 1, OMIT), (c - 1, c + 2)):
                yield L, s, e


def complement_magnitude_shard(spec):
    _, centres = spec
    t = inputs.Tally()
    for c in centres:
        variants = ('default', 'special-delims-positional') if c < COMPL_MAG_BOTH else ('default',)
        for L, s, e in complement_magnitude_cases(c):
            want = window_values(L, s, e)
            if want is None:
                t.add('skipped(no end, empty list)')
                continue
            for vname in variants:
                case = {'family': 'complement', 'list': L, 'range_start': s, 'range_end': e, 'variant': vname}
                t.count(nontrivial=bool(want) and bool(L), sample=case)
                try:
                    viols = cpu_guarded(EVAL_CPU_LIMIT, complement_eval, L, s, e, vname)
                except (CpuLimit, MemoryError) as ex:
                    viols = [('C14|fn:complement_int_list(%s)|terminates' % vname, 'a result',
                              'no result: %s' % type(ex).__name__)]
                for sig, exp, obs in viols:
                    t.bad(sig, case, exp, obs, tags=['magnitude'])
    return t


# ------------------------------------------------------------------------------------------------------------------
# gzip

GZ_ALPHA = (0x00, 0x61, 0xff)


def lcg_bytes(n, seed=12345):
    out = bytearray()
    x = seed
    for _ in range(n):
        x = (x * 1103515245 + 12345) & 0x7fffffff
        out.append((x >> 16) & 0xff)
    return bytes(out)


def structured_bytes(name):
    if name == 'a*100000':
        return b'a' * 100000
    if name == 'all-256':
        return bytes(range(256))
    if name == 'all-256*400':
        return bytes(range(256)) * 400
    if name == 'nul*65536':
        return b'\x00' * 65536
    if name == 'ff*65535':
        return b'\xff' * 65535
    if name.startswith('lcg-'):
        return lcg_bytes(int(name[4:]))
    if name == 'gzip-magic':
        return b'\x1f\x8b\x08\x00' * 3
    if name == 'gzip-of-gzip':
        return gzip.compress(b'abc', mtime=0)
    raise AssertionError(name)


STRUCTURED = ('a*100000', 'all-256', 'all-256*400', 'nul*65536', 'ff*65535', 'lcg-65535', 'lcg-65536', 'lcg-65537',
              'lcg-200000', 'gzip-magic', 'gzip-of-gzip')


# bulk sizes: a block-wise / buffered implementation has thresholds (block size, buffer size, window size) that the short
# exhaustive strings never reach.  Directed, NOT exhaustive in the content: one position-dependent payload per size.
_BULK = {}


def bulk_payload(n):
    """Deterministic bytes of length n: 256-byte groups (a SHA-256 digest of the group number, eight times), so the
    content compresses quickly, and no two groups are equal (a dropped, repeated or moved block changes the value)."""
    import hashlib
    have = _BULK.get('data', b'')
    if len(have) < n:
        out = bytearray(have)
        c = len(have) // 256
        out = out[:c * 256]
        while len(out) < n:
            out += hashlib.sha256(b'c14-%d' % c).digest() * 8
            c += 1
        have = _BULK['data'] = bytes(out)
    return have[:n]


def module_int_constants():
    """Integer constants (block / buffer sizes) found by introspection of the module under test, of the gzip module
    it builds on and of io - thresholds that a size ladder should straddle."""
    import io
    from boltons import strutils
    found = set()
    for mod in (strutils, gzip, io):
        for k, v in sorted(vars(mod).items()):
            if isinstance(v, int) and not isinstance(v, bool) and v >= 8:
                found.add(v)
    return sorted(found)[:32]


def bulk_sizes(tier):
    """-> (sizes for every level, extra sizes for the levels default/1/9 only)."""
    q = tier == 'quick'
    top, cap = (22, 1 << 23) if q else (24, 1 << 26)
    full = top - 1 if q else top                 # powers of two below 2**full: -1/+0/+1 at every level
    sizes = set()
    for k in range(3, full):
        sizes.update((2 ** k - 1, 2 ** k, 2 ** k + 1))
    sizes.add(2 ** top + 1)                      # above every threshold up to 2**top, at every level
    for c in module_int_constants():
        sizes.update(x for x in (c - 1, c, c + 1, 2 * c - 1, 2 * c, 2 * c + 1, 3 * c + 1) if x <= cap)
    if q:
        few = {2 ** full - 1, 2 ** full, 2 ** full + 1}
    else:
        few = {2 ** top - 1, 2 ** top, 2 ** 25 + 1, 2 ** 26 + 1}
    return sorted(sizes), sorted(few - sizes)


def gzip_bulk_shard(spec):
    _, level, n = spec
    t = inputs.Tally()
    case = {'family': 'gzip', 'bulk': n, 'level': level, 'how': 'pos'}
    t.count(nontrivial=True, sample=case)
    t.add('bytes_round_tripped', n)
    for sig, exp, obs in gzip_eval(bulk_payload(n), level, 'pos'):
        t.bad(sig, case, exp, obs, tags=['bulk'])
    return t


# content extremes x size x level: the bulk payload above compresses about 8:1 at every size.  A guard or a buffer that
# depends on the *ratio* between compressed and plain size (a "decompression bomb" limit, an output buffer sized from the
# input, an expected-size estimate) only shows on contents at the two ends of compressibility and in long streams, where
# the fixed header/trailer no longer dominates.  Directed, NOT exhaustive: one payload per (kind, size).
EXTREME_KINDS = ('run:00', 'run:ff', 'run:61', 'period:2', 'period:3', 'period:258', 'period:259', 'period:32768',
                 'period:32769', 'noise', 'noise+run', 'run+noise', 'run-with-last-byte-different')
_NOISE = {}


def noise_bytes(n):
    """n incompressible deterministic bytes (SHAKE-256 output stream; a prefix of a longer request)."""
    import hashlib
    have = _NOISE.get('data', b'')
    if len(have) < n:
        have = _NOISE['data'] = hashlib.shake_256(b'c14-noise').digest(n)
    return have[:n]


def extreme_payload(kind, n):
    if kind.startswith('run:'):
        return bytes([int(kind[4:], 16)]) * n
    if kind.startswith('period:'):
        p = int(kind[7:])
        unit = noise_bytes(p)
        return (unit * (n // p + 1))[:n]
    if kind == 'noise':
        return noise_bytes(n)
    if kind == 'noise+run':
        return noise_bytes(n // 2) + b'\x00' * (n - n // 2)
    if kind == 'run+noise':
        return b'\x00' * (n - n // 2) + noise_bytes(n // 2)
    if kind == 'run-with-last-byte-different':
        return b'\x00' * (n - 1) + b'\x01'
    raise AssertionError(kind)


ALL_LEVELS = (None, 1, 2, 3, 4, 5, 6, 7, 8, 9)
FEW_LEVELS = (None, 1, 9)


def _slow_kind(kind):
    return 'noise' in kind or kind in ('period:32768', 'period:32769')      # measured: 4x and more CPU per byte


def extreme_plan(tier):
    """-> sorted list of (kind, size, level).  Sizes 2**k from 64 KiB; every level up to a middle size, the levels
    default/1/9 above it; the longest runs (ratio closest to the DEFLATE limit of ~1032:1) again at every level."""
    q = tier == 'quick'
    plan = set()
    for kind in EXTREME_KINDS:
        if _slow_kind(kind):
            full, top = (18, 20) if q else (22, 24)
        elif kind.startswith('period:'):
            full, top = (20, 22) if q else (24, 26)
        elif kind == 'run:00':
            full, top = (20, 24) if q else (26, 26)
        else:
            full, top = (20, 22) if q else (26, 26)
        for k in range(16, top + 1):
            for lv in (ALL_LEVELS if k <= full else FEW_LEVELS):
                plan.add((kind, 2 ** k, lv))
            if not q and k < top:
                plan.add((kind, 3 * 2 ** k, None))
    top = 24 if q else 27
    plan.update(('run:00', 2 ** top, lv) for lv in (ALL_LEVELS if q else FEW_LEVELS))
    plan.add(('run:00', 2 ** top + 1, None))
    return sorted(plan, key=lambda x: (x[1], EXTREME_KINDS.index(x[0]), -1 if x[2] is None else x[2]))


def gzip_extreme_shard(spec):
    _, kind, n, level = spec
    t = inputs.Tally()
    case = {'family': 'gzip', 'extreme': kind, 'size': n, 'level': level, 'how': 'pos'}
    t.count(nontrivial=True, sample=case)
    t.add('bytes_round_tripped', n)
    for sig, exp, obs in gzip_eval(extreme_payload(kind, n), level, 'pos'):
        t.bad(sig, case, exp, obs, tags=['content-extreme', kind.split(':')[0]])
    return t


def extreme_ratios(plan):
    """Measured: the largest and smallest plain/compressed ratio among the explored payloads (reference encoder)."""
    n = max(x[1] for x in plan if x[0] == 'run:00')
    m = max(x[1] for x in plan if x[0] == 'noise')
    return {'largest (run, level 9)': round(n / len(gzip.compress(b'\x00' * n, 9, mtime=0)), 2),
            'smallest (noise, level 1)': round(m / len(gzip.compress(noise_bytes(m), 1, mtime=0)), 5)}


# payloads that contain byte sequences which mean something to the container format.  Incompressible content is emitted
# as *stored* DEFLATE blocks, i.e. verbatim and byte-aligned, so whatever the payload holds - the gzip magic, a complete
# member, block headers, a trailer - appears literally inside the stream; a reader that looks for such sequences instead
# of following the format (member splitting, resynchronisation, trailer search) is misled.  Directed, NOT exhaustive.
EMBED_SIZES = (300, 4096, 66000)
EMBED_PLACES = ('start', 'offset-1', 'middle', 'end', 'start+middle+end', 'every-1021')


def embed_sequence(name):
    member = gzip.compress(b'abc', 6, mtime=0)
    if name == 'gzip-id':
        return b'\x1f\x8b'
    if name == 'gzip-magic':
        return b'\x1f\x8b\x08'
    if name == 'gzip-header':
        return member[:10]
    if name == 'gzip-header-with-name':
        return b'\x1f\x8b\x08\x08\x00\x00\x00\x00\x00\x03name\x00'
    if name == 'gzip-member':
        return member
    if name == 'gzip-member-empty':
        return gzip.compress(b'', 6, mtime=0)
    if name == 'gzip-member-stored':
        return gzip.compress(noise_bytes(40)[8:], 1, mtime=0)
    if name == 'two-gzip-members':
        return member + gzip.compress(b'de', 9, mtime=0)
    if name == 'gzip-trailer-of-empty':
        return b'\x00' * 8
    if name == 'deflate-final-empty-block+trailer':
        return b'\x03\x00' + b'\x00' * 8
    if name == 'deflate-stored-header-final':
        return b'\x01\x00\x00\xff\xff'
    if name == 'deflate-stored-header':
        return b'\x00\x00\x00\xff\xff'
    if name == 'deflate-sync-flush':
        return b'\x00\x00\xff\xff'
    if name == 'zlib-header':
        return b'\x78\x9c'
    if name == 'zlib-stream':
        return zlib.compress(b'abc')
    raise AssertionError(name)


EMBED_SEQS = ('gzip-id', 'gzip-magic', 'gzip-header', 'gzip-header-with-name', 'gzip-member', 'gzip-member-empty',
              'gzip-member-stored', 'two-gzip-members', 'gzip-trailer-of-empty', 'deflate-final-empty-block+trailer',
              'deflate-stored-header-final', 'deflate-stored-header', 'deflate-sync-flush', 'zlib-header', 'zlib-stream')


def embed_payload(name, n, place):
    """n incompressible bytes in which the sequence replaces the content at the given place(s)."""
    if place.startswith('whole'):                      # the payload *is* a gzip stream of one / two stored members
        whole = gzip.compress(noise_bytes(n), 6, mtime=0)
        return whole if place == 'whole' else whole + gzip.compress(noise_bytes(n // 2), 1, mtime=0)
    seq = embed_sequence(name)
    out = bytearray(noise_bytes(n + 16)[16:])          # not the very bytes that 'gzip-member-stored' holds
    if place == 'every-1021':
        offs = list(range(7, n - len(seq), 1021))
    else:
        where = {'start': 0, 'offset-1': 1, 'middle': n // 2, 'end': n - len(seq)}
        offs = [where[p] for p in place.split('+')]
    for o in offs:
        out[o:o + len(seq)] = seq
    assert len(out) == n
    return bytes(out)


def gzip_embed_shard(spec):
    _, name, level = spec
    t = inputs.Tally()
    seq = embed_sequence(name)
    for n in EMBED_SIZES:
        for place in EMBED_PLACES + (('whole', 'whole+second-member') if name == 'gzip-member' else ()):
            if n > 4096 and place in ('offset-1', 'start+middle+end'):
                continue
            b = embed_payload(name, n, place)
            case = {'family': 'gzip', 'embed': name, 'size': n, 'place': place, 'level': level, 'how': 'pos'}
            ref = gzip.compress(b, 6 if level is None else level, mtime=0)
            t.count(nontrivial=(b'\x1f\x8b\x08' if place.startswith('whole') else seq) in ref[10:-8], sample=case)        # the sequence is literally inside the stream
            for sig, exp, obs in gzip_eval(b, level, 'pos'):
                t.bad(sig, case, exp, obs, tags=['embedded-container-bytes', 'embed:' + name.split('-')[0]])
    return t


def gzip_eval(b, level, how):
    su = _su()
    v = []
    lv = 'default level' if level is None else 'level'
    try:
        if level is None:
            gz = su.gzip_bytes(b)
        elif how == 'kw':
            gz = su.gzip_bytes(b, level=level)
        else:
            gz = su.gzip_bytes(b, level)
    except Exception as e:
        return [('C14|fn:gzip_bytes(%s)|returns bytes' % lv, 'bytes', 'raised %s: %s' % (type(e).__name__, e))]
    if not isinstance(gz, bytes):
        return [('C14|fn:gzip_bytes(%s)|returns bytes' % lv, 'bytes', 'returned %s' % type(gz).__name__)]
    try:
        back = su.gunzip_bytes(gz)
    except Exception as e:
        back = 'raised %s: %s' % (type(e).__name__, e)
    if back != b:
        v.append(('C14|fn:gunzip_bytes(gzip_bytes(%s))|round trip' % lv, _short(b), _short(back)))
    try:
        ind = gzip.decompress(gz)
    except Exception as e:
        ind = 'raised %s: %s' % (type(e).__name__, e)
    if ind != b:
        v.append(('C14|fn:gzip_bytes(%s)|gzip.decompress of the output' % lv, _short(b), _short(ind)))
    return v


def _short(x):
    if isinstance(x, bytes) and len(x) > 64:
        return {'len': len(x), 'head': x[:32], 'tail': x[-16:]}
    if isinstance(x, (list, tuple)) and len(x) > 64:
        return {'len': len(x), 'head': list(x[:16]), 'tail': list(x[-8:])}
    return x


def gzip_shard(spec):
    _, level, maxlen = spec
    t = inputs.Tally()
    for n in range(maxlen + 1):
        for tup in itertools.product(GZ_ALPHA, repeat=n):
            b = bytes(tup)
            for how in (('pos', 'kw') if n <= 2 and level is not None else ('pos',)):
                t.count(nontrivial=len(b) > 0, sample={'family': 'gzip', 'bytes': list(b), 'level': level, 'how': how})
                for sig, exp, obs in gzip_eval(b, level, how):
                    t.bad(sig, {'family': 'gzip', 'bytes': list(b), 'level': level, 'how': how}, exp, obs,
                          tags=['len:%d' % len(b)])
    for name in STRUCTURED:
        b = structured_bytes(name)
        t.count(nontrivial=True, sample={'family': 'gzip', 'structured': name, 'level': level, 'how': 'pos'})
        for sig, exp, obs in gzip_eval(b, level, 'pos'):
            t.bad(sig, {'family': 'gzip', 'structured': name, 'level': level, 'how': 'pos'}, exp, obs,
                  tags=['structured'])
    return t


# ------------------------------------------------------------------------------------------------------------------

def bounds(tier):
    q = tier == 'quick'
    return {
        'sh_maxlen': 3 if q else 4, 'sh_depth': 1 if q else 2, 'sh_pair_len': 1 if q else 2,
        'cmd_maxlen': 5 if q else 6, 'cmd_depth': 1 if q else 2, 'cmd_pair_len': 2 if q else 3,
        'int_subset_n': 10 if q else 13, 'int_list_len': 4 if q else 5,
        'compl_n': 10 if q else 12, 'compl_wmax': 12 if q else 14,
        'rs_n': 4 if q else 5, 'rs_n3': 3 if q else 4,         # range strings: values 0..n with 1-2 tokens / with 3
        'gzip_maxlen': 5 if q else 7,
    }


def run(ctx):
    B = bounds(ctx.tier)
    selftests = crt_selftest()
    shells, notes = find_shells(ctx.tier)
    for n in notes:
        ctx.note(n)
    root = core.scratch_dir('c14')
    try:
        selftests += shell_selftest(get_box(root), shells)
        sh_fn = sh_shard_fn(root, shells)
        inputs.run_shards(ctx, sh_fn, string_shards('sh', B['sh_maxlen'], B['sh_depth']), part='sh:single-argument',
                          rule='an argument is empty or contains a quote, backslash, blank, newline or one of '
                               '$ ` * ? ~ ; & | < > ( ) { } [ ] ! #')
        inputs.run_shards(ctx, sh_fn, list_shards('sh', B['sh_pair_len'], B['sh_maxlen']), part='sh:lists,tokens,code-point-sweep',
                          rule='same rule, any argument of the list')
    finally:
        shutil.rmtree(root, ignore_errors=True)
    inputs.run_shards(ctx, cmd_shard, string_shards('cmd', B['cmd_maxlen'], B['cmd_depth']), part='cmd:single-argument',
                      rule='an argument is empty or contains a double quote, backslash, space or tab')
    inputs.run_shards(ctx, cmd_shard, list_shards('cmd', B['cmd_pair_len'], B['cmd_maxlen']), part='cmd:lists,tokens,code-point-sweep',
                      rule='same rule, any argument of the list')
    hb = 4
    n = B['int_subset_n']
    int_shards = [('subsets', n, high, hb) for high in range(1 << hb)]
    int_shards += [('lists', x, B['int_list_len'], n) for x in INT_MENU]
    inputs.run_shards(ctx, int_shard, int_shards, part='int:format/parse',
                      rule='the list has duplicates or at least two consecutive integers (a range must be formed)')
    n = B['compl_n']
    inputs.run_shards(ctx, complement_shard, [('compl', n, high, hb, B['compl_wmax']) for high in range(1 << hb)],
                      part='int:complement', rule='non-empty list and non-empty expected complement')
    rs_shards = [('rs', tok, B['rs_n'], (1, 2), B['rs_n'] + 2, ('default', 'custom-delims'))
                 for tok in range_string_tokens(B['rs_n'])]
    rs_shards += [('rs', tok, B['rs_n3'], (3,), B['rs_n3'] + 2, ('default',)) for tok in range_string_tokens(B['rs_n3'])]
    inputs.run_shards(ctx, complement_strings_shard, rs_shards, part='int:complement:range-strings',
                      rule='the range string is not the canonical text of its integers (unsorted, overlapping, nested, '
                           'adjacent or repeated tokens, lo-lo) and the expected complement is non-empty')
    centres = magnitude_centres()
    inputs.run_shards(ctx, int_magnitude_shard, [('mag', centres[i::32]) for i in range(32)],
                      part='int:format/parse:magnitudes', rule='same rule as int:format/parse')
    top = 17 if ctx.tier == 'quick' else 21
    lengths = sorted({2 ** k + d for k in range(8, top + 1) for d in (-1, 0, 1)} | {10 ** k for k in range(3, 6)})
    inputs.run_shards(ctx, int_longrun_shard, [('longrun', lengths[i::16]) for i in range(16)],
                      part='int:format/parse:long-runs(directed ladder of run lengths up to 2**%d+1)' % top,
                      rule='always (one run of at least 255 consecutive integers)')
    ccentres = complement_magnitude_centres()
    inputs.run_shards(ctx, complement_magnitude_shard, [('cmag', [c]) for c in ccentres],
                      part='int:complement:magnitudes', rule='non-empty list and non-empty expected complement')
    inputs.run_shards(ctx, gzip_shard, [('gz', lv, B['gzip_maxlen']) for lv in [None] + list(range(1, 10))],
                      part='gzip', rule='non-empty byte string')
    noise_bytes(max(EMBED_SIZES) + 16)
    emb = [('embed', name, lv) for name in EMBED_SEQS for lv in ALL_LEVELS]
    emb.sort(key=lambda x: x[1] != 'gzip-magic')        # simplest first
    inputs.run_shards(ctx, gzip_embed_shard, emb, part='gzip:embedded-container-bytes',
                      rule='the embedded sequence occurs literally inside the compressed stream of the reference '
                           'encoder (stored blocks)')
    ctx.coverage['parts']['gzip:embedded-container-bytes']['exhaustive'] = False
    all_sizes, few_sizes = bulk_sizes(ctx.tier)
    bulk_payload(max(all_sizes + few_sizes))          # built once, inherited by the forked workers
    bulk = [('bulk', lv, n) for n in all_sizes for lv in [None] + list(range(1, 10))]
    bulk += [('bulk', lv, n) for n in few_sizes for lv in (None, 1, 9)]
    bulk.sort(key=lambda s: s[2])                     # simplest (shortest) first
    inputs.run_shards(ctx, gzip_bulk_shard, bulk, part='gzip:bulk-sizes',
                      rule='every payload is non-empty (7 bytes and more)')
    ctx.coverage['parts']['gzip:bulk-sizes']['exhaustive'] = False
    plan = extreme_plan(ctx.tier)                       # simplest (shortest) first
    noise_bytes(max(x[1] for x in plan if x[0] == 'noise'))        # built once, inherited by the forked workers
    ext = [('ext',) + x for x in plan]
    inputs.run_shards(ctx, gzip_extreme_shard, ext, part='gzip:content-extremes',
                      rule='every payload is non-empty (64 KiB and more)')
    ctx.coverage['parts']['gzip:content-extremes']['exhaustive'] = False

    cov = ctx.coverage
    cov['rule'] = ('a case is non-trivial when the encoder has something to do: shell/cmd lists containing an empty '
                   'argument or a character that is significant to the respective parser; integer lists with '
                   'duplicates or consecutive values; complement windows with a non-empty answer; non-empty byte '
                   'strings (rules per part under coverage.parts)')
    cov['exhaustive'] = True
    cov['oracle_selftest_vectors'] = selftests
    cov['shells'] = [{'name': s.name, 'argv': s.argv, 'env': s.env} for s in shells]
    cov['bounds'] = {
        'call_history': 'every evaluation of every strutils function is the last call of: call with equal arguments '
                        '(result changed in place by the caller); failing calls derived from the same arguments - '
                        'list: None appended, and an argument iterator that raises after the last item; text: '
                        'malformed tail appended; gzip stream: cut short; other bytes: passed as str (bytes '
                        'capped at %d) - exceptions swallowed; observed call.  One process per shard, so state '
                        'left behind by the calls of earlier cases is in effect as well' % FAIL_BYTES_CAP,
        'sh': {'alphabet': SH_ALPHA, 'single_argument_max_len': B['sh_maxlen'],
               'pairs_over_strings_up_to_len': B['sh_pair_len'], 'triples_over_strings_up_to_len': 1,
               'tokens': len(SH_TOKENS), 'token_lists': 'every token alone and every ordered pair',
               'code_point_sweep': 'U+0001..U+00FF and %d further code points, 8 contexts each' % len(SWEEP_EXTRA),
               'scale (directed, not exhaustive)': 'all tokens as one list; lists of %r arguments; one argument of '
                                                   '%r characters cycling through the alphabet; runs of %r quote '
                                                   'characters / backslashes (before a quote, after a blank, as an '
                                                   'argument of their own); same for cmd'
                                                   % (SCALE_LIST_LENGTHS, SCALE_ARG_LENGTHS, SCALE_RUN_LENGTHS),
               'functions': list(SH_FUNCS), 'oracles': [s.name for s in shells] + ['shlex.split']},
        'cmd': {'alphabet': CMD_ALPHA, 'single_argument_max_len': B['cmd_maxlen'],
                'pairs_over_strings_up_to_len': B['cmd_pair_len'], 'triples_over_strings_up_to_len': 1,
                'tokens': len(CMD_TOKENS), 'code_point_sweep': 'as for sh', 'functions': list(CMD_FUNCS),
                'oracles': ['MS CRT parse_cmdline reference, pre-2008 rules', 'same, post-2008 rules']},
        'int': {'subsets_of': 'range(%d)' % B['int_subset_n'], 'lists_max_len': B['int_list_len'],
                'list_menu': list(INT_MENU), 'variants': [v for v, _ in INT_VARIANTS],
                'complement_subsets_of': 'range(%d)' % B['compl_n'],
                'complement_windows': 'range_start in {omitted, 0..%d} x range_end in {omitted, None, 0..%d}'
                                      % (B['compl_wmax'], B['compl_wmax']),
                'complement_variants': [v for v, _ in COMPL_VARIANTS],
                'complement_positional_variant': 'only for the subsets of range(%d)' % (B['compl_n'] - hb),
                'complement_range_strings': 'every string of 1..2 tokens (default and custom delimiters) over v and '
                                            'lo-hi, 0 <= lo <= hi <= n = %d, and of 3 tokens with n = %d (default '
                                            'delimiters), any order, overlapping, nested, repeated; windows range_start '
                                            'in {omitted, 0..n+2} x range_end in {omitted, None, 0..n+2}; reversed '
                                            'ranges, blanks, empty tokens, signs, leading zeros not explored'
                                            % (B['rs_n'], B['rs_n3']),
                'magnitudes': {
                    'centres': '%d values: 2**k-1/+0/+1 for k=7..66, 10**k-1/+0/+1 for k=2..21, neighbours of '
                               '2**mant_dig, sys.maxsize, 2*sys.maxsize+1, and 10**23+1, 2**100+1, 2**128-1, 10**30+1, '
                               '10**40+7, int(float max)+1, 10**400+1' % len(centres),
                    'lists_per_centre': 'c+o for every non-empty subset of offsets %r, in the shapes %r (small '
                                        'values %r)' % (MAG_OFFSETS, MAG_SHAPES, MAG_SMALL),
                    'variants': [v for v, _ in MAG_VARIANTS],
                    'complement_centres': ccentres,
                    'complement_lists': 'c+o for every subset of offsets %r' % (COMPL_MAG_OFFSETS,),
                    'complement_windows': '(c-2, c+6), (c, None), (c+1, omitted), (c-1, c+2)',
                    'complement_variants': 'default; special-delims-positional for centres below %d' % COMPL_MAG_BOTH,
                    'note': 'exhaustive over this stated ladder; integers between the centres are not visited; '
                            'complement windows end below %d because complement_int_list materialises '
                            'range(range_end)' % COMPL_MAG_TOP}},
        'gzip': {'alphabet': list(GZ_ALPHA), 'max_len': B['gzip_maxlen'], 'levels': 'default, 1..9',
                 'structured': list(STRUCTURED),
                 'bulk': {'sizes_all_levels': all_sizes, 'sizes_levels_default_1_9': few_sizes,
                          'module_int_constants': module_int_constants(),
                          'payload': 'one per size: 256-byte groups, SHA-256 of the group number repeated 8 times',
                          'exhaustive': False,
                          'note': 'directed size ladder (powers of two -1/+0/+1 and integer constants of '
                                  'boltons.strutils, gzip and io with neighbours and multiples); the content is not '
                                  'enumerated, thresholds above the largest size are not reached'},
                 'embedded_container_bytes': {
                     'sequences': list(EMBED_SEQS), 'sizes': list(EMBED_SIZES), 'places': list(EMBED_PLACES),
                     'whole_payloads': 'gzip stream of the noise (one member; two members) as the payload, per size',
                     'levels': 'default, 1..9', 'exhaustive': False,
                     'note': 'directed: incompressible SHAKE-256 output (emitted as stored blocks, so the sequence '
                             'appears verbatim and byte-aligned in the stream) holding gzip/zlib/DEFLATE framing '
                             'bytes at the stated places; sequences inside Huffman-coded blocks (not byte-aligned) '
                             'cannot be placed and are not explored'},
                 'content_extremes': {
                     'kinds': list(EXTREME_KINDS),
                     'largest_size_per_kind': {k: max(x[1] for x in plan if x[0] == k) for k in EXTREME_KINDS},
                     'largest_size_at_every_level_per_kind': {
                         k: max(x[1] for x in plan if x[0] == k and x[2] == 5) for k in EXTREME_KINDS},
                     'sizes': '2**k from 2**16 (thorough: also 3 * 2**k at the default level)',
                     'levels': 'default, 1..9 up to the second size, default/1/9 up to the first',
                     'plain/compressed ratios reached': extreme_ratios(plan),
                     'exhaustive': False,
                     'note': 'directed: runs of one byte, short/match-length/window-length periods, incompressible '
                             'SHAKE-256 output and halves of both, at 2**k bytes; a ratio-dependent limit beyond '
                             'the ratios reached (DEFLATE maximum is about 1032:1, approached only by longer '
                             'runs) is not reached'}},
    }
    ctx.assumptions += [
        'the text is used as the argument part of a command line (after a command name / program name): a word '
        'such as a=b in command position would be an assignment, and the MS runtime parses argv[0] by other rules',
        '%s stand for "a POSIX shell" (bash --posix also performs brace expansion, an extension that a text with '
        '"nothing expanded" must survive too); the script and the read-back are UTF-8, lone surrogates (not '
        'encodable) are not explored' % ' and '.join(s.name for s in shells),
        'separator argument left at its default (the statement speaks of the text of the default call)',
        'complement_int_list with neither range_end nor any listed integer has no defined window and is skipped',
        'MS C runtime rules = stdargv.c parse_cmdline as documented by Microsoft (both generations); '
        'CommandLineToArgvW and cmd.exe metacharacters (& | ^ %) are outside the statement',
    ]


# ------------------------------------------------------------------------------------------------------------------

def replay(ctx, data):
    case = data['case']
    fam = case['family']
    msgs = []

    def add(sig, exp, obs):
        msgs.append('%s expected=%r observed=%r' % (sig, exp, obs))
    if fam == 'sh':
        args, fn = case['args'], case['fn']
        text, viols = sh_static(fn, args)
        for v in viols:
            add(*v)
        if text is not None:
            shells, _ = find_shells('thorough')
            root = core.scratch_dir('c14r')
            try:
                box = get_box(root)
                for sh in shells:
                    obs = run_single(box, sh, text, [a.encode('utf-8') for a in args])
                    if obs is not None:
                        add('C14|fn:%s|posix shell argv' % fn, args, dict(obs, text=text))
            finally:
                shutil.rmtree(root, ignore_errors=True)
    elif fam == 'cmd':
        for v in cmd_eval(case['fn'], case['args']):
            add(*v)
    elif fam == 'int':
        kw = dict(INT_VARIANTS)[case['variant']]
        for v in int_eval(case['list'], case['variant'], kw):
            add(*v)
    elif fam == 'complement':
        toks = case.get('tokens')
        L = tokens_values(toks) if toks is not None else case['list']
        for v in complement_eval(L, case['range_start'], case['range_end'], case.get('variant', 'default'), toks):
            add(*v)
    elif fam == 'gzip':
        if 'bulk' in case:
            b = bulk_payload(case['bulk'])
        elif 'structured' in case:
            b = structured_bytes(case['structured'])
        elif 'extreme' in case:
            b = extreme_payload(case['extreme'], case['size'])
        elif 'embed' in case:
            b = embed_payload(case['embed'], case['size'], case['place'])
        else:
            b = bytes(case['bytes'])
        for v in gzip_eval(b, case['level'], case.get('how', 'pos')):
            add(*v)
    else:
        raise ValueError('unknown case family %r' % fam)
    return msgs

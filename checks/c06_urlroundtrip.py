"""C06 - URL components survive render->parse; parsing fails only with URLParseError.

Engine E2 (mc.inputs): bounded exhaustive enumeration on the real ``boltons.urlutils``.

Parts
  matrix        every ASCII character, 14 non-ASCII representatives and a few multi-character atoms, alone and
                between two letters, in each of the six text components (username, password, path segment, query
                key, query value, fragment) of scheme://u:pw@host:port/p/SEG/q?k=v&k2=v2#f, for every
                scheme x host form x port of the menus
  strings       every string of length <= 2 (quick) / <= 3 (thorough) over the 24-symbol significant alphabet in each
                component, in a full and a sparse frame (the sparse frame has only that component), two ways of
                building the URL (attribute assignment after parsing the base / URL.from_parts)
  shapes        the same cells for the argument shapes and frames the two parts above do not have: a query key that
                occurs twice, placed through every shape URL.from_parts(query_params=) accepts (list, tuple, iterator,
                QueryParamDict, OrderedMultiDict, dict) and through add / update / update_extend / replacement on a
                parsed URL; a rootless path (first segment = the text) next to an authority, for one base per kind
                of scheme (registered netloc / unregistered / registered no-netloc / '+'), parsed and assembled
                the same query cells placed by item assignment and after clear() of a parsed query, and
                read back from a copy URL(url_object) of an assembled / parsed-then-modified URL
  roundtrip-bulk (directed, NOT exhaustive): n query pairs with distinct keys / under one key, n path segments, a
                text of n units in each component, n around powers of two and integer constants of the module under
                test and one size above all of them; built by assignment, from_parts and as a copy
  quote         quote_{userinfo,path,query,fragment}_part(s, full_quote=True): legal characters only, undone by
                unquote; unquote against a 6-line reference decoder on character strings and escape-token strings,
                on '%' + every pair of ASCII characters and on every upper/lower-case spelling of multi-byte runs
  pseudo-escapes  '%' + every ASCII character + runs of 1..6 (thorough: 8) hex digits (%u0041, %U0041, %x41, %#41 ...:
                not %XX escapes), introducers of foreign escape notations (backslash, &#x..;, =XX, U+, 0x, braces),
                the same behind a doubled '%' and with '%' written %25 / %2525: left alone by unquote, quote undone
                by unquote (part pseudo-escapes-quote), and recovered as component texts (part pseudo-escapes)
  grammar       URL texts and relative references assembled from menus per RFC 3986 production: full-quote and
                minimal-quote render-after-parse fixed points, legal characters
  totality      every sequence of <= 4 (quick) / <= 5 (thorough) tokens, and every character in 20 structural
                templates: URL() returns a URL or raises URLParseError; find_all_links never raises.
                totality-classes: the same templates filled with the first and the last code point of every class of
                the partition of Unicode by (general category, isdecimal, isdigit, isnumeric, isspace, kind of NFKC
                folding to ASCII) - computed from unicodedata, so e.g. superscript / circled / fullwidth / Arabic-Indic
                digits, compatibility forms of every ASCII delimiter, every kind of space - and with number-like
                texts (signs, padding, underscores, exponents, radix prefixes, values beyond 65535 / 2**53 / 2**64).
                totality-long (directed, NOT exhaustive): the templates filled with runs of one unit repeated n
                times, n around powers of two, the interpreter's int<->str digit limit and integer constants of
                the module under test

Oracles (all independent of boltons): identity up to NFC; RFC 3986 character classes per position applied to the
RFC 3986 appendix B split of the rendered text; text equality of two renderings; exception type.

What is demanded and nothing more (DESIGN 5.1): hosts are DNS-valid names or IP literals, ports 1-65535; an explicit
default port and no port are the same port; the outcome of decoding %XX runs that are not valid UTF-8 is left open
(replace / ignore / surrogateescape are all accepted), only "does not raise" and "everything else untouched" is
demanded there; minimal-quote fixed points are only demanded when no decoded component contains '%'.
"""
import itertools
import multiprocessing
import re
import signal
import unicodedata

from mc import core, inputs

PROPERTY = 'C06'
LEVEL = 'exploration'


def nfc(s):
    return unicodedata.normalize('NFC', s)


# ----------------------------------------------------------------------------------------------------
# Reference: RFC 3986 character classes and the appendix B split (strings only, nothing from boltons)

_APPENDIX_B = re.compile(r'^(([^:/?#]+):)?(//([^/?#]*))?([^?#]*)(\?([^#]*))?(#(.*))?', re.S)
_UNRES = r"A-Za-z0-9\-._~"
_SUB = r"!$&'()*+,;="
_PCT = r'%[0-9A-Fa-f]{2}'
RE_SCHEME = re.compile(r'[A-Za-z][A-Za-z0-9+.\-]*')
RE_USERINFO = re.compile(r'(?:[%s%s:]|%s)*' % (_UNRES, _SUB, _PCT))
RE_REGNAME = re.compile(r'(?:[%s%s]|%s)*' % (_UNRES, _SUB, _PCT))
RE_IPLITERAL = re.compile(r'\[[0-9A-Fa-f:.]+\]')
RE_PORT = re.compile(r'[0-9]*')
RE_PATH = re.compile(r'(?:[%s%s:@/]|%s)*' % (_UNRES, _SUB, _PCT))
RE_QUERY = re.compile(r'(?:[%s%s:@/?]|%s)*' % (_UNRES, _SUB, _PCT))
RE_UNRESERVED_ONLY = re.compile(r'[%s]*' % _UNRES)
SPLIT_NAMES = ('scheme', 'authority', 'path', 'query', 'fragment')


def split_uri(text):
    m = _APPENDIX_B.match(text)
    return (m.group(2), m.group(4), m.group(5), m.group(7), m.group(9))


def illegal_positions(text):
    """Names of the positions of a rendered URL text that hold a character RFC 3986 does not allow there."""
    bad = []
    scheme, authority, path, query, fragment = split_uri(text)
    if scheme is not None and not RE_SCHEME.fullmatch(scheme):
        bad.append('scheme')
    if authority is not None:
        userinfo, sep, hostport = authority.rpartition('@')
        if sep and not RE_USERINFO.fullmatch(userinfo):
            bad.append('userinfo')
        if hostport.startswith('['):
            host, _, rest = hostport.partition(']')
            host += ']'
            port = rest[1:] if rest.startswith(':') else ('' if not rest else None)
        else:
            host, sep, port = hostport.partition(':')
        if not (RE_IPLITERAL.fullmatch(host) if host.startswith('[') else RE_REGNAME.fullmatch(host)):
            bad.append('host')
        if port is None or not RE_PORT.fullmatch(port):
            bad.append('port')
    if not RE_PATH.fullmatch(path):
        bad.append('path')
    if query is not None and not RE_QUERY.fullmatch(query):
        bad.append('query')
    if fragment is not None and not RE_QUERY.fullmatch(fragment):
        bad.append('fragment')
    return bad


def first_difference(t1, t2):
    """Name of the first appendix-B component in which two URL texts differ."""
    for name, a, b in zip(SPLIT_NAMES, split_uri(t1), split_uri(t2)):
        if a != b:
            return name
    return 'text'


_ESCAPE_RUN = re.compile(r'((?:%[0-9A-Fa-f]{2})+)')


def ref_unquote(s, errors='replace'):
    """Reference decoder: every maximal run of well-formed %XX escapes is decoded as UTF-8, the rest is untouched."""
    parts = _ESCAPE_RUN.split(s)
    for i in range(1, len(parts), 2):
        parts[i] = bytes.fromhex(parts[i].replace('%', '')).decode('utf-8', errors)
    return ''.join(parts)


def unquote_acceptable(s, observed):
    """observed == reference; where an escape run is not valid UTF-8 the statement leaves the replacement open."""
    if observed == ref_unquote(s):
        return True
    try:
        ref_unquote(s, 'strict')
    except UnicodeDecodeError:
        return any(observed == ref_unquote(s, h) for h in ('ignore', 'surrogateescape', 'backslashreplace'))
    return False


# ----------------------------------------------------------------------------------------------------
# The enumerated space

ASCII = [chr(i) for i in range(128)]
NON_ASCII = ['\u00e9',            # 2-byte
             'e\u0301',           # combining sequence, NFC changes it
             '\u212b',            # singleton, NFC changes it
             'q\u0307\u0323',     # NFC reorders the marks
             '\u20ac',            # 3-byte
             '\U0001f600',        # 4-byte
             '\u05d0',            # right-to-left
             '\u2028',            # line separator
             '\u00a0', '\u200d', '\ufffd', '\uff05', '\u0130', '\u00ad']
ATOMS = ['%41', '%2F', '%3B', '%zz', '%%', '%4', '%25', '+%20', '&amp;', 'a=b&c=d', '../', '//', '://',
         'http://x/', 'u:p@h', '?q#f', ';;', '%C3%A9', '%FF', '%00']
ALPHABET24 = ['%', '+', '&', '=', ';', ':', '/', '?', '#', '@', '[', ']', ' ', '\t', '\n', 'a', '4', '1',
              '\u00e9', '\U0001f600', '.', ',', '~', '"']
COMPONENTS = ('username', 'password', 'path_segment', 'query_key', 'query_value', 'fragment')
SCHEMES = ('http', 'mailto', 'x-y.z', 'git+ssh')       # registered netloc, registered no-netloc, unregistered, '+'
HOSTS = ('example.com', 'b\u00fccher.example', '127.0.0.1', '[2001:db8::1]', 'xn--bcher-kva.example')
PORTS = (None, 1, 80, 8080, 65535)
DEFAULT_PORT = {'http': 80, 'git+ssh': 22}             # from the schemes' own specifications

# one base per kind of scheme (registered netloc, unregistered, registered no-netloc x2, '+'-suffixed), name / IPv4 hosts
SHAPE_BASES = ('http://example.com:8042', 'x-y.z://127.0.0.1:9', 'mailto://example.com', 'sip://example.com:5070',
               'git+ssh://example.com:2222')

UNQUOTE_TOKENS = ['%', '%41', '%4', '%G1', '%%', '%25', '%C3', '%A9', '%c3', '%a9', '%E2', '%82', '%AC', '%F0',
                  '%9F', '%98', '%80', '%FF', '%00', '%ED', '%A0', 'a', '4', '+', ' ', '\u00e9', '\U0001f600',
                  '\u00a9']
TOTALITY_TOKENS = ['http', ':', '//', '/', '?', '#', '[', ']', '@', '%', '%41', 'a', '1', '.', '..', 'xn--',
                   '\u00e9', '::1', 'www.', '&amp;', ' ', '(', ')']
TOTALITY_TEMPLATES = ['%s', 'http://%s', 'http://a%sb', 'http://a%sb.com/', 'http://[%s]', 'http://[::%s]',
                      'http://h:%s', 'http://h:8%s', 'http://u%s@h', 'http://u:p%s@h', '%s://h', 'http://h/%s',
                      'http://h?%s', 'http://h#%s', 'http://%s.com', 'http://xn--%s', 'http://xn--%s.com/',
                      'www.%s', 'http://a.%s.b', '//%s']


# number-like texts: what int() / float() / str.isdigit() / a range test treat differently from "ASCII decimal 1..65535"
NUMBER_LIKE = ['0', '00', '0080', '65536', '99999', str(2 ** 31), str(2 ** 53 + 1), str(2 ** 64), '-1', '-0', '+80', ' 80',
               '80 ', '\t80', '80\n', '8_0', '_80', '1e3', '8.0', '0x50', '0o7', '0b1', 'inf', 'nan', '8,0',
               '\u0668\u0660', '\uff18\uff10', '8\u0660', '\u00b9\u00b2', '8\u00b9', '\u2460', '\u00bd', '\u2167',
               '\u4e09', '\u0967\u0968\u0969', '\U0001d7ce', '\u2080']
LONG_UNITS = ['1', '0', '\u0660', '\u00b2', 'a', '%', '%41', '.', ':', '/', '[', '@', '-', ' ', '\u00e9']


def _nfkc_kind(c):
    k = unicodedata.normalize('NFKC', c)
    if k == c:
        return None
    if not k.isascii():
        return 'other'
    if k.isdigit():
        return 'ascii-digits'
    if k.isalpha():
        return 'ascii-letters'
    return 'ascii:' + k if len(k) == 1 else 'ascii-text'


def unicode_class_chars():
    """First and last non-ASCII code point of every class of the partition of the assigned, non-surrogate code points
    by (general category, isdecimal, isdigit, isnumeric, isspace, kind of NFKC folding to ASCII).  Derived from the
    interpreter's Unicode tables (stdlib only): a finite set standing for "all Unicode strings" by class."""
    reps = {}
    for cp in range(128, 0x110000):
        c = chr(cp)
        cat = unicodedata.category(c)
        if cat in ('Cs', 'Cn'):
            continue
        key = (cat, c.isdecimal(), c.isdigit(), c.isnumeric(), c.isspace(), _nfkc_kind(c))
        r = reps.get(key)
        if r is None:
            reps[key] = [c, c]
        else:
            r[1] = c
    return sorted({c for r in reps.values() for c in r}), len(reps)


def long_sizes(tier, module=None):
    """Run lengths around thresholds: powers of two +-1, the int<->str conversion digit limit of the interpreter, and
    every integer constant >= 64 found at the top level of the module under test (by introspection)."""
    import sys
    centres = {256, 4096} if tier == 'quick' else {256, 1024, 4096, 8192, 65536}
    lim = getattr(sys, 'get_int_max_str_digits', lambda: 0)()
    if lim:
        centres.add(lim)
    for name in sorted(vars(module)) if module is not None else ():
        val = vars(module)[name]
        if type(val) is int and 64 <= val <= (1 << 13 if tier == 'quick' else 1 << 17):
            centres.add(val)
    return sorted({n + d for n in centres for d in (-1, 0, 1)})


def base_text(scheme, host, port):
    return '%s://%s%s' % (scheme, host, '' if port is None else ':%d' % port)


def frame_values(comp, text, frame):
    """Decoded component values of the URL under test: the text in its component, the frame elsewhere.
    Frames: 'full' / 'sparse' (only that component); 'repeat' = full with a repeated query key (the text under test is
    the repeated key / the first value under the repeated key); 'rootless' / 'rootless_sparse' = the path is
    rootless (its first segment is the text under test, resp. 'p'), next to an authority."""
    full = frame in ('full', 'repeat', 'rootless')
    v = {'username': 'u' if full else '', 'password': 'pw' if full else '',
         'path': ('', 'p', 'q') if full else ('',),
         'query': [('k', 'v'), ('k2', 'v2')] if full else [],
         'fragment': 'f' if full else ''}
    if frame == 'repeat':
        v['query'] = [('k', 'v'), ('k2', 'v2'), ('k', 'v3')]
    rootless = frame in ('rootless', 'rootless_sparse')
    if rootless:
        v['path'] = ('p', 'q') if full else ('p',)
    if comp == 'username':
        v['username'] = text
    elif comp == 'password':
        v['password'] = text
    elif comp == 'path_segment':
        if rootless:
            v['path'] = (text, 'q') if full else (text,)
        else:
            v['path'] = ('', 'p', text, 'q') if full else ('', text)
    elif comp == 'query_key':
        v['query'] = [(text, val) if k == 'k' else (k, val) for k, val in v['query']] if v['query'] else [(text, 'v')]
    elif comp == 'query_value':
        v['query'] = [('k', text)] + v['query'][1:]
    elif comp == 'fragment':
        v['fragment'] = text
    else:
        raise AssertionError(comp)
    return v


def _omd(U, pairs):
    from boltons.dictutils import OrderedMultiDict
    return OrderedMultiDict(pairs)


# argument shapes of URL.from_parts(query_params=...): everything OrderedMultiDict.update() documents
QUERY_SHAPES = {'from_parts': lambda U, pairs: list(pairs),
                'from_parts_tuple': lambda U, pairs: tuple(tuple(p) for p in pairs),
                'from_parts_iter': lambda U, pairs: iter(list(pairs)),
                'from_parts_qpd': lambda U, pairs: U.QueryParamDict(pairs),
                'from_parts_omd': _omd,
                'from_parts_dict': lambda U, pairs: dict(pairs)}


PATH_SHAPES = {'from_parts_iter': iter, 'from_parts_qpd': list}        # path_parts: any iterable of segments
DICT_LIKE_HOWS = ('from_parts_dict', 'copy_from_parts_dict', 'assign_setitem', 'copy_assign_setitem')
ASSIGN_HOWS = ('assign', 'assign_update', 'assign_extend', 'assign_replace', 'assign_clear')
# URL(url_object) used to copy through the minimally quoted text (lossy when a decoded component contains '%': genuine
# defect, repaired by fixes/C07-5-url-copy-keeps-escaped-percent); since the repair copies are explored for every text
COPY_PERCENT_EXPLORED = True
COPY_HOWS = ('copy_assign', 'copy_from_parts', 'copy_assign_replace', 'copy_assign_clear')
# url.qp ("a synonym for query_params") re-parses the original query text on every access and forgets what was placed
# before: genuine defect on the unchanged tree (fixes/C06-qp-alias.patch); explored once this is True
QP_ALIAS_EXPLORED = True


def build_url(U, base, v, how):
    """The URL under test.  'assign': parse scheme://host:port, then assign the decoded components (query pairs
    through query_params.add, see DESIGN C06 harness notes).  'from_parts': URL.from_parts with the same values
    (only used with name / IPv4 hosts: from_parts has no way to say "IPv6"); 'from_parts_<shape>': the query pairs
    are handed over as that shape (QUERY_SHAPES), path_parts as PATH_SHAPES; 'assign_<op>': the pairs reach the parsed
    URL's query_params through update / update_extend / a new QueryParamDict instead of add."""
    if how.startswith('copy_'):
        # the URL under test is a copy, URL(url_object), of the URL built the other way
        u, parsed = build_url(U, base, v, how[len('copy_'):])
        return U.URL(u), parsed
    parsed = U.URL(base)
    if how in QUERY_SHAPES:
        path = PATH_SHAPES.get(how, tuple)(v['path'])
        return U.URL.from_parts(scheme=parsed.scheme, host=parsed.host, port=parsed.port, path_parts=path,
                                query_params=QUERY_SHAPES[how](U, v['query']), fragment=v['fragment'],
                                username=v['username'], password=v['password']), parsed
    # 'assign_clear': the parsed text had a query of its own, which is emptied before the pairs are placed
    u = U.URL(base + '?zz=old&k=stale;y') if how == 'assign_clear' else U.URL(base)
    u.username = v['username']
    u.password = v['password']
    u.path_parts = tuple(v['path'])
    u.fragment = v['fragment']
    # render in the middle of the history, then change the query in place: an earlier rendering must not be remembered
    u.to_text()
    u.to_text(full_quote=True)
    if how == 'assign':
        for k, val in v['query']:
            u.query_params.add(k, val)
    elif how == 'assign_update':
        u.query_params.update(list(v['query']))
    elif how == 'assign_extend':
        u.query_params.update_extend(list(v['query']))
    elif how == 'assign_replace':
        u.query_params = U.QueryParamDict(v['query'])
    elif how == 'assign_setitem':
        for k, val in v['query']:
            u.query_params[k] = val
    elif how == 'assign_clear':
        u.query_params.clear()
        for k, val in v['query']:
            u.query_params.add(k, val)
    elif how == 'assign_qp':
        for k, val in v['query']:
            u.qp.add(k, val)                  # "qp is a synonym for query_params" (URL docstring)
    else:
        raise AssertionError(how)
    return u, parsed


def decoded_has_percent(u):
    vals = [u.username or '', u.password or '', u.fragment or ''] + [p or '' for p in u.path_parts]
    for k, val in u.query_params.items(multi=True):
        vals.append(k or '')
        vals.append(val or '')
    return any('%' in x for x in vals)


def _exc(e):
    return type(e).__name__


def text_tags(comp, text, v):
    """At most one tag: the narrow input class a known finding may be scoped to (where=...)."""
    if comp in ('query_key', 'query_value') and ';' in text:
        return ('query_text_has_semicolon',)
    if comp == 'query_value' and text == '':
        return ('query_value_empty',)
    if v['username'] == '' and v['password'] != '':
        return ('password_with_empty_username',)
    if '\n' in v['fragment']:
        return ('fragment_has_newline',)
    return ()


# ----------------------------------------------------------------------------------------------------
# Evaluation of one case on the real code (shared by the explorer and by replay).
# Every eval_* returns a list of (signature, expected, observed, tags).

def url_class_tags(u):
    """Input-class tags of a parsed URL, by the component they concern (at most one tag per violation)."""
    tags = {}
    try:
        if not u.username and u.password:
            tags['authority'] = ('password_with_empty_username',)
        pairs = u.query_params.items(multi=True)
        if any(';' in (k or '') or ';' in (val or '') for k, val in pairs):
            tags['query'] = ('query_text_has_semicolon',)
        elif any(val == '' for k, val in pairs):
            tags['query'] = ('query_value_empty',)
        if '\n' in (u.fragment or ''):
            tags['fragment'] = ('fragment_has_newline',)
        if u.scheme and not u.host and not u._netloc_sep and u.path_parts[0]:
            tags['raised'] = tags['authority'] = tags['path'] = ('rootless_path_without_authority',)
    except Exception:
        pass
    return tags


def fixed_points(U, u, out, full_text=None, default_tags=()):
    """Render-after-parse fixed points of a parsed URL u: full quoting always, minimal quoting when no decoded
    component contains '%'."""
    tags = url_class_tags(u)
    for mode, full in (('full', True), ('minimal', False)):
        try:
            if not full and decoded_has_percent(u):
                return
            t1 = full_text if (full and full_text is not None) else u.to_text(full_quote=full)
            t2 = U.URL(t1).to_text(full_quote=full)
            if t1 != t2:
                what = first_difference(t1, t2)
                out.append(('C06|fixedpoint:%s|%s-changed' % (mode, what), t1, t2, tags.get(what, default_tags)))
        except Exception as e:
            out.append(('C06|fixedpoint:%s|raised:%s' % (mode, _exc(e)), 'a text', 'raised %r' % e,
                        tags.get('raised', default_tags)))


def _brief(exp, obs, limit=12):
    """Bulk scenarios: a long expected / observed sequence or text is reported by its length and the neighbourhood of
    the first difference."""
    def clip(x):
        return _clip(x, 120) if isinstance(x, str) else \
            type(x)(clip(y) for y in x) if isinstance(x, (tuple, list)) else x
    if isinstance(exp, (list, tuple)) and isinstance(obs, (list, tuple)) and max(len(exp), len(obs)) > limit:
        i = next((j for j, (a, b) in enumerate(zip(exp, obs)) if a != b), min(len(exp), len(obs)))
        lo = max(0, i - 1)
        return ({'length': len(exp), 'first_difference_at': i, 'there': clip(list(exp[lo:i + 2]))},
                {'length': len(obs), 'first_difference_at': i, 'there': clip(list(obs[lo:i + 2]))})
    return clip(exp), clip(obs)


def eval_cell(U, base, comp, text, frame, how='assign'):
    v = frame_values(comp, text, frame)
    if how in DICT_LIKE_HOWS:
        v['query'] = list(dict(v['query']).items())       # what a plain dict holds: the last value of each key
    tags = text_tags(comp, text, v)
    return eval_values(U, base, comp, v, frame, how, tags, 'C06|roundtrip:%s|' % comp)


def eval_values(U, base, comp, v, frame, how, tags, pre, bulk=False):
    """Place the decoded values v, render fully quoted, re-parse, compare.  bulk: long values are reported briefly."""
    out = []
    try:
        u, parsed = build_url(U, base, v, how)
    except Exception as e:
        return [(pre + 'build-raised:%s' % _exc(e), 'URL built', _clip('raised %r' % e, 600), tags)]
    try:
        t = u.to_text(full_quote=True)
    except Exception as e:
        return [(pre + 'to_text-raised:%s' % _exc(e), 'a text', _clip('raised %r' % e, 600), tags)]
    for pos in illegal_positions(t):
        out.append((pre + 'illegal-character-in-%s' % pos, 'only RFC 3986 characters of that position',
                    _clip(t) if bulk else t, tags))
    try:
        u2 = U.URL(t)
    except Exception as e:
        out.append((pre + 'reparse-raised:%s' % _exc(e), 'parses',
                    _clip('%s -> raised %r' % (_clip(t) if bulk else t, e), 900), tags))
        return out

    def bad(what, exp, obs):
        if bulk:
            exp, obs = _brief(exp, obs)
        out.append((pre + what, exp, {'text': _clip(t) if bulk else t, 'observed': obs}, tags))

    # components that are not under test: scheme, host, port
    if u2.scheme != parsed.scheme:
        bad('leaked-into-scheme', parsed.scheme, u2.scheme)
    if u2.host != parsed.host or u2.family != parsed.family:
        bad('leaked-into-host', [parsed.host, parsed.family], [u2.host, u2.family])
    if u2.port != parsed.port and not (u2.port is None and parsed.port == DEFAULT_PORT.get(parsed.scheme)):
        bad('leaked-into-port', parsed.port, u2.port)
    # text components
    for name in ('username', 'password', 'fragment'):
        exp, obs = nfc(v[name]), getattr(u2, name)
        if not isinstance(obs, str) or nfc(obs) != exp:
            bad('not-recovered' if name == comp else 'leaked-into-%s' % name, exp, obs)
    exp_path, obs_path = tuple(nfc(p) for p in v['path']), tuple(u2.path_parts)
    rootless = frame in ('rootless', 'rootless_sparse')
    if rootless and exp_path[0] != '' and obs_path[:1] == ('',) and len(obs_path) == len(exp_path) + 1:
        # next to an authority a path begins with "/" (RFC 3986 3.3): the root marker is not a placed segment
        obs_path = obs_path[1:]
    if len(obs_path) != len(exp_path):
        bad('path-segments-split' if comp == 'path_segment' else 'leaked-into-path', exp_path, obs_path)
    else:
        for i, (e, o) in enumerate(zip(exp_path, obs_path)):
            if not isinstance(o, str) or nfc(o) != e:
                mine = comp == 'path_segment' and i == (0 if rootless else len(exp_path) - (1 if frame == 'sparse' else 2))
                bad('not-recovered' if mine else 'leaked-into-path', exp_path, obs_path)
                break
    exp_q = [(nfc(k), nfc(val)) for k, val in v['query']]
    try:
        obs_q = list(u2.query_params.items(multi=True))
    except Exception as e:
        obs_q = 'raised %r' % e
    in_query = comp in ('query_key', 'query_value')
    if not isinstance(obs_q, list) or len(obs_q) != len(exp_q):
        bad('query-pairs-split' if in_query else 'leaked-into-query', exp_q, obs_q)
    else:
        for i, ((ek, ev), (ok, ov)) in enumerate(zip(exp_q, obs_q)):
            k_ok = isinstance(ok, str) and nfc(ok) == ek
            v_ok = isinstance(ov, str) and nfc(ov) == ev
            if k_ok and v_ok:
                continue
            if i == 0 and comp == 'query_key' and not k_ok and v_ok:
                bad('not-recovered', exp_q, obs_q)
            elif i == 0 and comp == 'query_value' and k_ok:
                bad('empty-string-became-None' if (ev == '' and ov is None) else 'not-recovered', exp_q, obs_q)
            elif ev == '' and ov is None and k_ok:
                bad('leaked-into-query(empty-string-became-None)', exp_q, obs_q)
            else:
                bad('leaked-into-query', exp_q, obs_q)
            break
    # the re-parsed URL is a parsed well-formed URL: both renderings are fixed points
    n0 = len(out)
    fixed_points(U, u2, out, full_text=t, default_tags=tags)
    if bulk:
        for i in range(n0, len(out)):
            sig, exp, obs, tg = out[i]
            j = next((k for k, (a, b) in enumerate(zip(exp, obs)) if a != b), min(len(exp), len(obs))) \
                if isinstance(exp, str) and isinstance(obs, str) else 0
            out[i] = (sig, _brief_text(exp, j), _brief_text(obs, j), tg)
    return out


def _brief_text(x, at):
    if not isinstance(x, str) or len(x) <= 300:
        return x
    return {'length': len(x), 'first_difference_at': at, 'there': x[max(0, at - 60):at + 120]}


QUOTE_FNS = {'quote_userinfo_part': RE_USERINFO, 'quote_path_part': RE_PATH, 'quote_query_part': RE_QUERY,
             'quote_fragment_part': RE_QUERY}


def eval_quote(U, fn, s):
    out = []
    f = getattr(U, fn)
    pre = 'C06|fn:%s|' % fn
    try:
        q = f(s, full_quote=True)
    except Exception as e:
        return [(pre + 'raised:%s' % _exc(e), 'a text', 'raised %r' % e, ())]
    if not isinstance(q, str) or not QUOTE_FNS[fn].fullmatch(q):
        out.append((pre + 'illegal-character', 'only RFC 3986 characters of that position', q, ()))
        if not isinstance(q, str):
            return out
    try:
        back = U.unquote(q)
    except Exception as e:
        out.append((pre + 'unquote-raised:%s' % _exc(e), nfc(s), 'raised %r' % e, ()))
        return out
    if back != nfc(s):
        out.append((pre + 'not-undone-by-unquote', nfc(s), {'quoted': q, 'unquoted': back}, ()))
    return out


def eval_unquote(U, s):
    try:
        obs = U.unquote(s)
    except Exception as e:
        return [('C06|fn:unquote|raised:%s' % _exc(e), ref_unquote(s), 'raised %r' % e, ())]
    if not unquote_acceptable(s, obs):
        return [('C06|fn:unquote|result', ref_unquote(s), obs, ())]
    return []


def eval_grammar(U, t):
    out = []
    try:
        u = U.URL(t)
    except Exception as e:
        return [('C06|fixedpoint:parse|raised:%s' % _exc(e), 'parses', 'raised %r' % e, ())]
    tags = url_class_tags(u)
    try:
        t1 = u.to_text(full_quote=True)
    except Exception as e:
        return [('C06|fixedpoint:full|raised:%s' % _exc(e), 'a text', 'raised %r' % e, tags.get('raised', ()))]
    for pos in illegal_positions(t1):
        out.append(('C06|fixedpoint:full|illegal-character-in-%s' % pos, 'only RFC 3986 characters', t1,
                    tags.get('authority' if pos in ('userinfo', 'host', 'port') else pos, ())))
    fixed_points(U, u, out, full_text=t1)
    return out


FAL_VARIANTS = (('plain', {}), ('with_text', {'with_text': True}),
                ('schemes', {'schemes': ('https', 'ftp'), 'with_text': True}),
                ('no_default_scheme', {'default_scheme': None}))


def eval_totality(U, text, wrap=True):
    out = []
    try:
        r = U.URL(text)
        if not isinstance(r, U.URL):
            out.append(('C06|totality:URL|result-type', 'URL', repr(type(r)), ()))
    except U.URLParseError:
        pass
    except Exception as e:
        out.append(('C06|totality:URL|raised:%s' % _exc(e), 'a URL or URLParseError', 'raised %r' % e, ()))
    texts = (text, 'see ' + text + ' (or <' + text + '>).') if wrap else (text,)
    for name, kw in FAL_VARIANTS:
        for tx in texts:
            try:
                U.find_all_links(tx, **kw)
            except Exception as e:
                out.append(('C06|totality:find_all_links|raised:%s' % _exc(e), 'never raises',
                            '%s: raised %r' % (name, e), ()))
                break
    return out


# ----------------------------------------------------------------------------------------------------
# RFC 3986 grammar menus

G_SCHEMES = (None, 'http', 'x', 'mailto', 'git+ssh', 'a.b-c+d1', 'HTTP')
G_USERINFO = (None, 'u', 'u:p', ':p', 'u:', '', 'u%40v:p%3Aq', "u;=:p!$&'()*+,", '%C3%A9:%c3%a9', 'u:p:q',
              '%25:%2541', '-._~')
G_HOSTS = ('h', 'example.com', 'a-b.c1.example', '127.0.0.1', '[::1]', '[2001:db8::1]', 'xn--bcher-kva.example')
G_PORTS = (None, '', '80', '8080', '65535', '1', '0080', '443')
_SEGMENT_TAILS = ('', '/', '/a', '/a/', '/a/b', '/a/b/', '//', '//a', '/a//b', '/.', '/..', '/./a', '/a/../b',
                  '/%2F', '/a%2Fb', '/%41', '/%c3%a9', '/%FF', '/%20', '/a;p=1', '/:@', "/!$&'()*+,;=", '/%25',
                  '/%2541', '/~-._', '/%3F%23', '/%0A', '/%3B', '/%5B%5D', '/a:b', '/%00')
G_PATH_ABEMPTY = _SEGMENT_TAILS
G_PATH_ABSOLUTE = tuple(p for p in _SEGMENT_TAILS if p and not p.startswith('//'))
G_PATH_ROOTLESS = ('a', 'a/b', 'a/', 'a:b', 'a@b', '%2F', '.', '..', './a', 'a//b', '%41:%3A', 'a;b=c', '%0Aa',
                   "!$&'()*+,;=", '~', 'a/../b', '%25', '%C3%A9/%c3%a9')
G_PATH_NOSCHEME = tuple(p for p in G_PATH_ROOTLESS if ':' not in p.split('/')[0]) + ('./a:b',)
G_QUERIES = (None, '', 'a', 'a=b', 'a=', '=b', '=', 'a=b&c=d', 'a&b', '&', 'a=b&', '&a=b', 'a=b&&c=d', 'a;b',
             'a=1;b=2', 'a=%3B', '%3B=a', 'a=%26', 'a=%3D', 'a=%2B', 'a=+', 'a+b=c', 'a=b=c', 'a=%20', 'a=%25',
             'a=%2541', '%C3%A9=%c3%a9', 'a=%FF', 'a=/?:@', "a=!$'()*,", 'a=b&a=c', 'a=%23', '?', 'a=?', '/',
             'a=%0A', 'a=%00', '%26=%3D', 'a=b&c', 'a==', '~=-._')
G_FRAGMENTS = (None, '', 'f', '/?', 'a=b&c', '%23', '%25', '%41', '%c3%a9', '%FF', ":@!$&'()*+,;=", '%20',
               '%5B%5D', '%0A', 'a%0Ab', '%2F', '%2541', '~-._')


def g_authorities(userinfos, hosts, ports):
    for ui in userinfos:
        for h in hosts:
            for p in ports:
                yield ('' if ui is None else ui + '@') + h + ('' if p is None else ':' + p)


def g_texts(scheme, authorities, tails, queries, fragments):
    """All texts scheme x authorities x path menu by production x queries x fragments.  tails: dict with the
    path menus 'abempty', 'absolute', 'rootless', 'noscheme'."""
    for auth in authorities:
        if auth is None:
            paths = ('',) + tuple(tails['absolute']) + tuple(tails['rootless' if scheme else 'noscheme'])
        else:
            paths = tails['abempty']
        head = ('' if scheme is None else scheme + ':') + ('' if auth is None else '//' + auth)
        for path in paths:
            for q in queries:
                for f in fragments:
                    yield head + path + ('' if q is None else '?' + q) + ('' if f is None else '#' + f)


_G_PLAIN = re.compile(r'[A-Za-z0-9/]*')


def grammar_nontrivial(t):
    s, a, p, q, f = split_uri(t)
    ui = a.rpartition('@')[0] if a and '@' in a else ''
    body = ui + p + (q or '') + (f or '')
    return not _G_PLAIN.fullmatch(body) or q == '' or f == '' or (a is not None and a.endswith(':'))


# ----------------------------------------------------------------------------------------------------
# Shards (run in worker processes): every case under a CPU budget

class _Hang(BaseException):
    pass


class _Abort(BaseException):
    pass


def _on_timer(signum, frame):
    raise _Hang()


CASE_CPU_BUDGET_S = 5.0
MAX_HANGS_PER_SHARD = 2
_HANG_SEEN = multiprocessing.Value('i', 0)


class Guard:
    """A hang in the code under test becomes a violation of that case; after repeated hangs the rest of the shard
    is abandoned and the coverage is reported as not exhaustive."""

    def __init__(self, t):
        self.t, self.hangs, self.budget = t, 0, CASE_CPU_BUDGET_S

    def call(self, case, fn, *args):
        signal.setitimer(signal.ITIMER_VIRTUAL, self.budget)
        try:
            try:
                return fn(*args)
            finally:
                signal.setitimer(signal.ITIMER_VIRTUAL, 0)
        except _Hang:
            self.hangs += 1
            self.t.add('hangs')
            self.t.bad('C06|hang:%s' % case.get('part'), case, 'terminates',
                       'no result within %g CPU seconds' % self.budget)
            if self.hangs >= MAX_HANGS_PER_SHARD or _HANG_SEEN.value:
                _HANG_SEEN.value = 1
                self.t.add('shards_abandoned_after_hang')
                raise _Abort()
            _HANG_SEEN.value = 1
            return None


def _guarded(shard):
    def run(arg):
        t = inputs.Tally()
        old = signal.signal(signal.SIGVTALRM, _on_timer)
        try:
            shard(arg, t, Guard(t))
        except _Abort:
            pass
        finally:
            signal.setitimer(signal.ITIMER_VIRTUAL, 0)
            signal.signal(signal.SIGVTALRM, old)
        return t
    return run


def _u():
    # the quoting/unquoting/parsing functions are evaluated as the second call with the same arguments
    from boltons import urlutils
    return inputs.SecondCallModule(urlutils, names=('unquote', 'unquote_to_bytes', 'quote_path_part', 'quote_query_part',
                                                    'quote_fragment_part', 'quote_userinfo_part', 'parse_url',
                                                    'parse_qsl', 'parse_host', 'find_all_links'))


def _record(t, case, results):
    for sig, exp, obs, tags in results or ():
        t.bad(sig, case, exp, obs, tags=tags)


def _is_nontrivial_text(text):
    return not RE_UNRESERVED_ONLY.fullmatch(text)


def matrix_texts():
    singles = ASCII + NON_ASCII + ATOMS
    return singles + ['x' + c + 'y' for c in singles]


def shard_cells(arg, t, g):
    """arg: part, component, bases, texts, frames, hows."""
    U = _u()
    comp = arg['component']
    for text in arg['texts']:
        nontrivial = _is_nontrivial_text(text)
        for base in arg['bases']:
            for frame in arg['frames']:
                for how in arg['hows']:
                    if how.startswith('copy_') and '%' in text and not COPY_PERCENT_EXPLORED:
                        continue
                    case = {'part': arg['part'], 'base': base, 'component': comp, 'text': text, 'frame': frame,
                            'build': how}
                    t.count(nontrivial=nontrivial, sample=case if len(t.samples) < 3 else None)
                    _record(t, case, g.call(case, eval_cell, U, base, comp, text, frame, how))


def shard_quote(arg, t, g):
    U = _u()
    for s in arg['texts']:
        nontrivial = _is_nontrivial_text(s)
        for fn in QUOTE_FNS:
            case = {'part': 'quote', 'fn': fn, 'text': s}
            t.count(nontrivial=nontrivial, sample=case if len(t.samples) < 3 else None)
            _record(t, case, g.call(case, eval_quote, U, fn, s))
        case = {'part': 'unquote', 'text': s}
        t.count(nontrivial='%' in s, sample=None)
        _record(t, case, g.call(case, eval_unquote, U, s))


def shard_unquote_tokens(arg, t, g):
    U = _u()
    for toks in inputs.strings(UNQUOTE_TOKENS, arg['maxlen'] - 1):
        s = arg['first'] + ''.join(toks)
        if s in arg['skip']:
            continue                 # already evaluated in part 'quote'
        case = {'part': 'unquote', 'text': s}
        t.count(nontrivial=bool(_ESCAPE_RUN.search(s)), sample=case if len(t.samples) < 3 else None)
        _record(t, case, g.call(case, eval_unquote, U, s))


MULTIBYTE_ESCAPES = ['%c3%a9', '%ce%bb', '%e2%82%ac', '%ea%af%8d', '%f0%9f%98%80', '%f3%a0%84%80', '%ed%a0%80', '%c0%af']


def case_spellings(s):
    """Every upper/lower-case spelling of the letters of s (hex digits of escapes are case-insensitive)."""
    opts = [(c.lower(), c.upper()) if c.isalpha() else (c,) for c in s]
    return [''.join(p) for p in itertools.product(*opts)]


def shard_unquote_hex(arg, t, g):
    """'%' followed by every pair of ASCII characters (so every spelling of every escape, and every malformed
    one), alone and inside text; every case spelling of multi-byte escape runs."""
    U = _u()
    texts = []
    for a in arg['firsts']:
        for b in ASCII:
            texts += ['%' + a + b, 'x%' + a + b + 'y%' + a + b]
    for esc in arg['runs']:
        for sp in case_spellings(esc):
            texts += [sp, 'a' + sp + '%' + sp]
    for s in texts:
        case = {'part': 'unquote', 'text': s}
        t.count(nontrivial=bool(_ESCAPE_RUN.search(s)), sample=case if len(t.samples) < 3 else None)
        _record(t, case, g.call(case, eval_unquote, U, s))


# '%' followed by something that is NOT two hex digits is not an escape ("leaves everything else alone"): '%' + every
# ASCII character + a run of 1..6 (thorough: ..8) hex digits, which is the shape of the escape notations of other
# languages ('%u0041' of JavaScript escape(), '%x41', ...); the introducers of further foreign notations (backslash
# escapes, HTML character references, quoted-printable, U+, 0x, braces); the same behind a doubled percent sign and after
# one and two levels of quoting ('%25u0041', '%2525u0041').  None of them may be decoded by unquote, and as a
# component text each of them must come back as it was placed.
HEX_RUN_SOURCES = ('00000041', '000020ac', '0001F600', 'ffffffff', '00000025')
FOREIGN_INTRODUCERS = ['\\u', '\\U', '\\x', '\\', '\\u{', '&#', '&#x', '&#X', '&', '=', '=?', 'U+', 'u+', '0x', '$', '^',
                       '~', '+', '%u{', '%{', '%x{', '%&#x', '%&#', '%\\u', '%\\x', '%0x', '%U+', '%=', '%+u', '%u+']


def hex_runs(n, sources=HEX_RUN_SOURCES):
    return list(dict.fromkeys(src[-n:] for src in sources))


def pseudo_escape_texts(tier, cells=False):
    """cells=False: the texts for unquote / quote_*_part; cells=True: the (smaller) list placed in URL components."""
    maxrun = 6 if tier == 'quick' else 8
    letters = [c for c in ASCII if c.isalnum()]
    intros = ['%' + c for c in letters + [c for c in ASCII if not c.isalnum()]] + FOREIGN_INTRODUCERS
    out = []
    for n in range(1, maxrun + 1):
        runs = hex_runs(n) if not cells else hex_runs(n, HEX_RUN_SOURCES[:2] if n in (2, 4) else HEX_RUN_SOURCES[:1])
        for intro in intros:
            for run in runs:
                terms = ('', ';') + (('}',) if intro.endswith('{') else ())
                for term in (terms if not cells or n in (2, 4) else terms[-1:] if intro.endswith('{') else terms[:1]):
                    s = intro + run + term
                    out.append(s)
                    if cells and n != 4:
                        continue
                    out.append('%' + s)                                   # doubled percent sign
                    out.append(s.replace('%', '%25'))                     # after one level of quoting
                    if not cells:
                        out.append(s.replace('%', '%2525'))               # after two levels
                        out.append('a' + s + 'b' + s)                     # inside text, twice
                        out.append('%41' + s + '%C3%A9')                  # next to well-formed escapes
    return sorted(dict.fromkeys(out), key=len)             # simplest first (stable)


def shard_grammar(arg, t, g):
    U = _u()
    for text in g_texts(arg['scheme'], arg['authorities'], arg['tails'], arg['queries'], arg['fragments']):
        case = {'part': 'grammar', 'url': text}
        t.count(nontrivial=grammar_nontrivial(text), sample=case if len(t.samples) < 3 else None)
        _record(t, case, g.call(case, eval_grammar, U, text))


def shard_totality_tokens(arg, t, g):
    U = _u()
    first = arg['first']
    for toks in inputs.strings(TOTALITY_TOKENS, arg['maxlen'] - len(first)):
        text = ''.join(first) + ''.join(toks)
        case = {'part': 'totality', 'text': text}
        t.count(nontrivial=len(first) + len(toks) > 1, sample=case if len(t.samples) < 3 else None)
        _record(t, case, g.call(case, eval_totality, U, text))


def token_segmentable(text, maxtokens):
    """Is text a concatenation of <= maxtokens totality tokens (then part totality-tokens has evaluated it)?"""
    if not text:
        return True
    if maxtokens == 0:
        return False
    return any(text.startswith(tok) and token_segmentable(text[len(tok):], maxtokens - 1)
               for tok in TOTALITY_TOKENS)


def shard_totality_chars(arg, t, g):
    U = _u()
    for c in arg['chars']:
        for tmpl in TOTALITY_TEMPLATES:
            text = tmpl % c
            if token_segmentable(text, arg['maxtokens']):
                continue
            case = {'part': 'totality', 'text': text}
            t.count(nontrivial=not (c.isascii() and c.isalnum()), sample=case if len(t.samples) < 3 else None)
            _record(t, case, g.call(case, eval_totality, U, text))


def _clip(x, n=300):
    return x if not isinstance(x, str) or len(x) <= n else x[:n] + '...(%d characters)' % len(x)


def long_text(case):
    return case['template'] % (case['unit'] * case['n'])


BULK_KINDS = ('query_pairs', 'repeated_key', 'path_segments', 'text')
BULK_UNITS = ['a', '%', ' ', '\u00e9', '&=', 'e\u0301', '%41']
BULK_BASE = 'x-y.z://example.com:8443'


def bulk_sizes(tier, module=None):
    """Numbers of items / characters of the bulk scenarios: around powers of two, powers of ten (thorough) and every
    integer constant in 64..2**17 at the top level of the module under test, each -1, +0, +1, +2; and one size above
    all of them (a limit anywhere below it misbehaves there too)."""
    centres = {256, 4096} if tier == 'quick' else {256, 1024, 4096, 16384, 65536, 1000, 10000, 100000}
    for name in sorted(vars(module)) if module is not None else ():
        val = vars(module)[name]
        if type(val) is int and 64 <= val <= 1 << 17:
            centres.add(val)
    top = max(max(centres) + 2, (1 << 15 if tier == 'quick' else 1 << 18)) + 1
    return sorted({n + d for n in centres for d in (-1, 0, 1, 2)} | {top})


def bulk_values(case):
    """Decoded component values of a bulk scenario: n query pairs with distinct keys / under one key, n path segments,
    or a text of n units in one component - inside the full frame."""
    kind, n = case['kind'], case['n']
    comp = {'query_pairs': 'query_value', 'repeated_key': 'query_value', 'path_segments': 'path_segment'}.get(
        kind, case.get('component'))
    v = frame_values(comp, 'x', 'full')
    if kind == 'query_pairs':
        v['query'] = [('k%d' % i, 'v %d&=' % i) for i in range(n)]
    elif kind == 'repeated_key':
        v['query'] = [('k', 'v %d&=' % i) for i in range(n)]
    elif kind == 'path_segments':
        v['path'] = ('',) + tuple('s %d/' % i for i in range(n))
    elif kind == 'text':
        v = frame_values(comp, case['unit'] * n, 'full')
    else:
        raise AssertionError(kind)
    return comp, v


def eval_bulk(U, case):
    comp, v = bulk_values(case)
    pre = 'C06|roundtrip-bulk:%s|' % (case['kind'] if case['kind'] != 'text' else comp)
    return eval_values(U, BULK_BASE, comp, v, 'full', case['build'], (), pre, bulk=True)


def shard_bulk(arg, t, g):
    U = _u()
    g.budget = 12 * CASE_CPU_BUDGET_S
    for n in arg['sizes']:                      # smallest first
        for case in arg['cases']:
            case = dict(case, part='roundtrip-bulk', n=n)
            t.count(nontrivial=True, sample=case if len(t.samples) < 3 else None)
            _record(t, case, g.call(case, eval_bulk, U, case))


def bulk_shards(tier, sizes):
    hows = ('assign', 'from_parts', 'copy_from_parts')
    args = []
    small, large = [n for n in sizes if n <= 5000], [n for n in sizes if n > 5000]
    for kind in BULK_KINDS[:3]:
        for how in hows:
            args.append({'sizes': small, 'cases': [{'kind': kind, 'build': how}]})
            for n in large:                      # the expensive ones: one per shard
                args.append({'sizes': [n], 'cases': [{'kind': kind, 'build': how}]})
    for comp in COMPONENTS:
        cases = [{'kind': 'text', 'component': comp, 'unit': unit, 'build': how}
                 for unit in BULK_UNITS
                 for how in ('assign', 'from_parts' if '%' in unit and not COPY_PERCENT_EXPLORED else 'copy_from_parts')]
        args.append({'sizes': sizes, 'cases': cases})
    return args


def shard_totality_long(arg, t, g):
    U = _u()
    g.budget = 4 * CASE_CPU_BUDGET_S            # texts of up to a few 100 000 characters, ~20 calls per case
    for n in arg['sizes']:                      # shortest first
        for unit in arg['units']:
            for tmpl in TOTALITY_TEMPLATES:
                case = {'part': 'totality-long', 'template': tmpl, 'unit': unit, 'n': n}
                t.count(nontrivial=True, sample=case if len(t.samples) < 3 else None)
                res = g.call(case, eval_totality, U, long_text(case))
                _record(t, case, [(sig, exp, _clip(obs), tags) for sig, exp, obs, tags in res or ()])


# ----------------------------------------------------------------------------------------------------

def bounds(tier):
    if tier == 'quick':
        return {'strings_maxlen': 2, 'quote_maxlen': 3, 'unquote_tokens_maxlen': 3, 'totality_tokens_maxlen': 4,
                'grammar': 'quick'}
    return {'strings_maxlen': 3, 'quote_maxlen': 3, 'unquote_tokens_maxlen': 4, 'totality_tokens_maxlen': 5,
            'grammar': 'thorough'}


def _chunks(seq, n):
    seq = list(seq)
    size = max(1, -(-len(seq) // n))
    return [seq[i:i + size] for i in range(0, len(seq), size)]


def grammar_shards(tier):
    """Two sub-products (so that every menu is fully crossed with every other menu at least pairwise-plus):
    A: every scheme x the complete authority product x a short tail menu;
    B: every scheme x a short authority menu x the complete path x query x fragment product."""
    quick = tier == 'quick'
    tails_full = {'abempty': G_PATH_ABEMPTY, 'absolute': G_PATH_ABSOLUTE, 'rootless': G_PATH_ROOTLESS,
                  'noscheme': G_PATH_NOSCHEME}
    tails_short = {'abempty': ('', '/', '/a%2Fb'), 'absolute': ('/a',), 'rootless': ('a',), 'noscheme': ('a',)}
    args = []
    # A
    userinfos = G_USERINFO if not quick else G_USERINFO[:9]
    hosts = G_HOSTS if not quick else ('h', 'example.com', '127.0.0.1', '[::1]', 'xn--bcher-kva.example')
    ports = G_PORTS if not quick else G_PORTS[:5]
    short_auths = (None, 'h', 'u:p@example.com:8080') if quick else \
        (None, 'h', 'u:p@example.com:8080', ':p@[::1]:80', 'u@xn--bcher-kva.example:')
    auths = [a for a in g_authorities(userinfos, hosts, ports) if a not in short_auths]    # those are in B
    for scheme in G_SCHEMES:
        for chunk in _chunks(auths, 2 if quick else 4):
            args.append({'scheme': scheme, 'authorities': chunk, 'tails': tails_short,
                         'queries': (None, 'a=b%3Bc') if quick else (None, 'a=b%3Bc', ''),
                         'fragments': (None, 'f%0A') if quick else (None, 'f%0A', '')})
    # B
    queries = G_QUERIES if not quick else G_QUERIES[::2] + ('a=%3B',)
    fragments = G_FRAGMENTS if not quick else G_FRAGMENTS[::3] + ('a%0Ab',)
    schemes = G_SCHEMES if not quick else G_SCHEMES[:5]
    for scheme in schemes:
        for auth in short_auths:
            for qs in _chunks(queries, 2 if quick else 4):
                args.append({'scheme': scheme, 'authorities': (auth,), 'tails': tails_full, 'queries': tuple(qs),
                             'fragments': fragments})
    return args


def run(ctx):
    b = bounds(ctx.tier)
    rule = ("component cells, quote: the text contains a character that is not RFC 3986 unreserved; unquote: the "
            "text contains a well-formed %XX escape; grammar: userinfo/path/query/fragment contain something "
            "other than letters, digits and '/', or a present-but-empty component; totality: more than one "
            "token / a character other than an ASCII letter or digit / a run of >= 255 units")

    # 1. character x component matrix
    texts = matrix_texts()
    args = []
    for comp in COMPONENTS:
        for scheme in SCHEMES:
            for host in HOSTS:
                args.append({'part': 'matrix', 'component': comp, 'texts': texts,
                             'bases': [base_text(scheme, host, p) for p in PORTS],
                             'frames': ('full',), 'hows': ('assign',)})
    inputs.run_shards(ctx, _guarded(shard_cells), args, part='matrix', rule=rule)

    # 2. all strings over the 24-symbol alphabet in every component
    all_strings = list(inputs.texts(ALPHABET24, b['strings_maxlen']))
    args = []
    for comp in COMPONENTS:
        for chunk in _chunks(all_strings, 4 if ctx.quick() else 16):
            args.append({'part': 'strings', 'component': comp, 'texts': chunk,
                         'bases': ['http://example.com:8042', 'x-y.z://127.0.0.1:9'],
                         'frames': ('full', 'sparse'), 'hows': ('assign', 'from_parts')})
            args.append({'part': 'strings', 'component': comp, 'texts': chunk,
                         'bases': ['git+ssh://[2001:db8::1]:2222'],
                         'frames': ('full', 'sparse'), 'hows': ('assign',)})
    inputs.run_shards(ctx, _guarded(shard_cells), args, part='strings', rule=rule)

    # 2b. argument shapes and frames: a repeated query key placed through every shape URL.from_parts accepts for
    # query_params; a rootless path next to an authority, for every kind of scheme, parsed and assembled URLs
    shape_texts = list(dict.fromkeys(list(inputs.texts(ALPHABET24, 2)) + matrix_texts()))     # both tiers
    few = ['', 'a', 'k', '%', '&=', '/']
    mappings = ('from_parts_qpd', 'from_parts_omd', 'from_parts_dict', 'from_parts_tuple', 'from_parts_iter')
    args = []
    for comp in COMPONENTS:
        in_query = comp in ('query_key', 'query_value')
        for chunk in _chunks(shape_texts if in_query else few, 8 if in_query else 1):
            args.append({'part': 'shapes', 'component': comp, 'texts': chunk, 'bases': list(SHAPE_BASES[:2]),
                         'frames': ('repeat',), 'hows': ASSIGN_HOWS + ('from_parts',) + mappings})
            args.append({'part': 'shapes', 'component': comp, 'texts': chunk, 'bases': list(SHAPE_BASES[:2]),
                         'frames': ('full', 'sparse'), 'hows': mappings[:3] if in_query else mappings})
            # copies (URL(url_object)) of assembled and of parsed-then-modified URLs; item assignment; the qp alias
            args.append({'part': 'shapes', 'component': comp, 'texts': chunk, 'bases': list(SHAPE_BASES[:1]),
                         'frames': ('repeat', 'sparse'), 'hows': COPY_HOWS})
            args.append({'part': 'shapes', 'component': comp, 'texts': chunk, 'bases': list(SHAPE_BASES[:1]),
                         'frames': ('full',), 'hows': ('assign_setitem', 'copy_assign_setitem', 'assign_clear')
                         + (('assign_qp',) if QP_ALIAS_EXPLORED else ())})
        in_path = comp == 'path_segment'
        for chunk in _chunks(shape_texts if in_path else few, 8 if in_path else 1):
            args.append({'part': 'shapes', 'component': comp, 'texts': chunk, 'bases': list(SHAPE_BASES),
                         'frames': ('rootless', 'rootless_sparse'), 'hows': ('assign', 'from_parts')})
    inputs.run_shards(ctx, _guarded(shard_cells), args, part='shapes', rule=rule)

    # quote_*_part / unquote
    qtexts = list(dict.fromkeys(list(inputs.texts(ALPHABET24, b['quote_maxlen'])) + matrix_texts()))
    args = [{'texts': chunk} for chunk in _chunks(qtexts, 16)]
    inputs.run_shards(ctx, _guarded(shard_quote), args, part='quote', rule=rule)
    seen = frozenset(qtexts)
    args = [{'first': '', 'maxlen': 1, 'skip': seen}]
    args += [{'first': tok, 'maxlen': b['unquote_tokens_maxlen'], 'skip': seen} for tok in UNQUOTE_TOKENS]
    inputs.run_shards(ctx, _guarded(shard_unquote_tokens), args, part='unquote-tokens', rule=rule)
    args = [{'firsts': chunk, 'runs': MULTIBYTE_ESCAPES[i::8]} for i, chunk in enumerate(_chunks(ASCII, 8))]
    inputs.run_shards(ctx, _guarded(shard_unquote_hex), args, part='unquote-hex', rule=rule)

    # pseudo escapes: '%' + a character + hex digits, foreign escape notations; unquote / quote and as component texts
    ptexts = [s for s in pseudo_escape_texts(ctx.tier) if s not in seen]
    args = [{'texts': chunk} for chunk in _chunks(ptexts, 16)]
    inputs.run_shards(ctx, _guarded(shard_quote), args, part='pseudo-escapes-quote', rule=rule)
    ctexts = pseudo_escape_texts(ctx.tier, cells=True)
    args = []
    for comp in COMPONENTS:
        for chunk in _chunks(ctexts, 3):
            args.append({'part': 'pseudo-escapes', 'component': comp, 'texts': chunk, 'bases': list(SHAPE_BASES[:1]),
                         'frames': ('full',), 'hows': ('assign',)})
            args.append({'part': 'pseudo-escapes', 'component': comp, 'texts': chunk, 'bases': list(SHAPE_BASES[1:2]),
                         'frames': ('sparse',), 'hows': ('from_parts',)})
    inputs.run_shards(ctx, _guarded(shard_cells), args, part='pseudo-escapes', rule=rule)

    # 3. grammar product
    inputs.run_shards(ctx, _guarded(shard_grammar), grammar_shards(ctx.tier), part='grammar', rule=rule)

    # 4. totality
    depth = 2
    args = [{'first': (), 'maxlen': depth - 1}]
    args += [{'first': p, 'maxlen': b['totality_tokens_maxlen']}
             for p in itertools.product(TOTALITY_TOKENS, repeat=depth)]
    inputs.run_shards(ctx, _guarded(shard_totality_tokens), args, part='totality-tokens', rule=rule)
    chars = ASCII + NON_ASCII
    args = [{'chars': chunk, 'maxtokens': b['totality_tokens_maxlen']} for chunk in _chunks(chars, 8)]
    inputs.run_shards(ctx, _guarded(shard_totality_chars), args, part='totality-chars', rule=rule)
    class_chars, n_classes = unicode_class_chars()
    extra = [c for c in dict.fromkeys(class_chars + NUMBER_LIKE) if c not in chars]
    args = [{'chars': chunk, 'maxtokens': b['totality_tokens_maxlen']} for chunk in _chunks(extra, 16)]
    inputs.run_shards(ctx, _guarded(shard_totality_chars), args, part='totality-classes', rule=rule)
    from boltons import urlutils as _module_under_test
    sizes = long_sizes(ctx.tier, _module_under_test)
    args = [{'units': [unit], 'sizes': sizes} for unit in LONG_UNITS]
    inputs.run_shards(ctx, _guarded(shard_totality_long), args, part='totality-long', rule=rule)

    # 5. bulk round trips (directed, NOT exhaustive): many query pairs / path segments, long component texts
    bsizes = bulk_sizes(ctx.tier, _module_under_test)
    inputs.run_shards(ctx, _guarded(shard_bulk), bulk_shards(ctx.tier, bsizes), part='roundtrip-bulk', rule=rule)

    cov = ctx.coverage
    cov['rule'] = rule
    hangs = sum(p.get('hangs', 0) for p in cov.get('parts', {}).values())
    cov['exhaustive'] = hangs == 0
    if hangs:
        cov['cap_hit'] = '%d case(s) exceeded the CPU budget; shards were abandoned after repeated hangs' % hangs
    cov['bounds'] = dict(
        b, matrix_characters='128 ASCII + %d non-ASCII + %d atoms, alone and as x<c>y' % (len(NON_ASCII), len(ATOMS)),
        non_ascii=NON_ASCII, atoms=ATOMS, components=list(COMPONENTS), schemes=list(SCHEMES), hosts=list(HOSTS),
        ports=list(PORTS), alphabet24=ALPHABET24, unquote_tokens=UNQUOTE_TOKENS, totality_tokens=TOTALITY_TOKENS,
        shapes={'bases': list(SHAPE_BASES), 'query_params_shapes': sorted(QUERY_SHAPES),
                'query_placed_on_parsed_url_by': ['add', 'update', 'update_extend', 'replacing query_params',
                                                  '__setitem__', 'clear() of a parsed query, then add']
                + (['qp.add'] if QP_ALIAS_EXPLORED else []),
                'copies': 'URL(url_object) of ' + ', '.join(h[5:] for h in COPY_HOWS) + ('' if COPY_PERCENT_EXPLORED else " (texts without '%')"),
                'frames': ['repeat (a query key occurs twice)', 'rootless / rootless_sparse (rootless path next to an '
                           'authority)'],
                'texts': 'strings of length <= 2 over alphabet24 + matrix texts in the components concerned, %r elsewhere' % (few,)},
        pseudo_escapes={'introducers': "'%' + every ASCII character; " + ' '.join(FOREIGN_INTRODUCERS),
                        'hex_runs': 'the last n digits of %s, n = 1..%d' % (', '.join(HEX_RUN_SOURCES), 6 if ctx.quick() else 8),
                        'terminators': "none, ';', '}' behind a brace (as component texts: for n = 2 and 4)",
                        'variants': "behind a doubled '%', with every '%' written as %25 / %2525, twice inside text, "
                                    "next to well-formed escapes",
                        'as_component_texts': '%d of them (one or two runs per length; variants for n = 4)' % len(ctexts),
                        'texts': len(ptexts)},
        unquote_hex={'pairs': "'%' + every pair of ASCII characters, alone and twice inside text",
                     'multibyte_runs_in_every_case_spelling': MULTIBYTE_ESCAPES},
        totality_templates=TOTALITY_TEMPLATES, find_all_links_variants=[n for n, _ in FAL_VARIANTS],
        totality_classes={'partition': '(general category, isdecimal, isdigit, isnumeric, isspace, kind of NFKC folding '
                                       'to ASCII) over all assigned non-surrogate code points >= U+0080',
                          'classes': n_classes, 'representatives': 'first and last code point of each class',
                          'characters': len(class_chars), 'number_like': NUMBER_LIKE},
        totality_long={'exhaustive': False, 'what': 'directed scenario: every template filled with unit * n',
                       'units': LONG_UNITS, 'sizes': sizes,
                       'sizes_from': 'powers of two, sys.get_int_max_str_digits(), top-level integer constants of '
                                     'boltons.urlutils; each -1, +0, +1'},
        roundtrip_bulk={'exhaustive': False,
                        'what': 'directed scenario: n query pairs with distinct keys / under one key, n path segments, '
                                'a text of n units in each component; built by assignment, from_parts and as a copy',
                        'sizes': bsizes, 'units': BULK_UNITS, 'base': BULK_BASE,
                        'sizes_from': 'powers of two (and of ten, thorough), top-level integer constants of '
                                      'boltons.urlutils; each -1, +0, +1, +2; one size above all of them'},
        grammar_menus={'schemes': list(G_SCHEMES), 'userinfo': list(G_USERINFO), 'hosts': list(G_HOSTS),
                       'ports': list(G_PORTS), 'path_abempty': len(G_PATH_ABEMPTY),
                       'path_absolute': len(G_PATH_ABSOLUTE), 'path_rootless': len(G_PATH_ROOTLESS),
                       'path_noscheme': len(G_PATH_NOSCHEME), 'queries': len(G_QUERIES),
                       'fragments': len(G_FRAGMENTS)})
    ctx.assumptions += [
        'component round trips are checked together with a valid scheme, a DNS-valid host name / IDN / IPv4 / IPv6 '
        'literal and a port in 1..65535 (or none); host and scheme are lower-case',
        'an explicit default port (http 80, git+ssh 22) that re-parses as "no port" is the same port',
        'recovered text is compared up to Unicode NFC; lone surrogates are not explored (no UTF-8 form)',
        'unquote: where a run of %XX escapes is not valid UTF-8 any of replace/ignore/surrogateescape/'
        'backslashreplace is accepted; everything else must be exact',
        'grammar texts use DNS-valid registered names or IP literals (no IPvFuture, no empty label, no non-ASCII), '
        'ports within 1..65535 (leading zeros and the empty port allowed); the empty authority ("//" followed by '
        'an empty host, as in file:///x or ////) is not explored: an empty host is not a valid host (DESIGN 5.1)',
        'minimal-quote fixed points are demanded only when no decoded component contains "%"',
        'Unicode is represented by %d code point sequences in the round-trip parts; in the totality part additionally '
        'by two code points of each of %d classes of a partition computed from unicodedata' % (len(NON_ASCII), n_classes),
        ("URL(url_object) copies are explored for every component text (the copy takes the decoded components since "
         "the repair)" if COPY_PERCENT_EXPLORED else
         "URL(url_object) copies are explored for component texts without '%' only (the copy goes through the "
         "minimally quoted text)"),
        'url.qp is %s' % ('explored as a way to place query text' if QP_ALIAS_EXPLORED else
                          'NOT explored: on the unchanged tree every access re-parses the original query text '
                          '(reported defect, fixes/C06-qp-alias.patch)'),
        'part roundtrip-bulk is a finite list of directed scenarios as well; part totality-long is a finite list of directed scenarios (long runs of one unit), not an enumeration; '
        '"exhaustive" refers to the other parts',
    ]


def replay(ctx, data):
    case = data['case']
    old = signal.signal(signal.SIGVTALRM, _on_timer)
    signal.setitimer(signal.ITIMER_VIRTUAL, 4 * CASE_CPU_BUDGET_S)
    try:
        return _replay(ctx, data, case)
    except _Hang:
        return ['C06|hang:%s case=%r: no result within %g CPU seconds' % (case.get('part'), case,
                                                                           4 * CASE_CPU_BUDGET_S)]
    finally:
        signal.setitimer(signal.ITIMER_VIRTUAL, 0)
        signal.signal(signal.SIGVTALRM, old)


def _replay(ctx, data, case):
    U = _u()
    part = case.get('part')
    if part in ('matrix', 'strings', 'shapes', 'pseudo-escapes'):
        res = eval_cell(U, case['base'], case['component'], case['text'], case['frame'], case.get('build', 'assign'))
    elif part == 'quote':
        res = eval_quote(U, case['fn'], case['text'])
    elif part == 'unquote':
        res = eval_unquote(U, case['text'])
    elif part == 'grammar':
        res = eval_grammar(U, case['url'])
    elif part == 'totality':
        res = eval_totality(U, case['text'])
    elif part == 'roundtrip-bulk':
        res = eval_bulk(U, case)
    elif part == 'totality-long':
        res = [(sig, exp, _clip(obs), tags) for sig, exp, obs, tags in eval_totality(U, long_text(case))]
    else:
        raise ValueError('unknown replay part %r' % part)
    res = [r for r in res if ctx.known_match(r[0], r[3]) is None]
    want = str(data.get('signature'))
    res.sort(key=lambda r: r[0] != want)
    return ['%s case=%r expected=%r observed=%r' % (sig, case, exp, obs) for sig, exp, obs, _ in res]
